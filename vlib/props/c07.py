"""C07: the tool always terminates with output or a diagnostic; it never panics or hangs.

P  = spec/Pipeline.tla bottom part (Terminates, NoPanicExit, ExitOk, CleanSucceeds) + "the diagnostic names the file"
M  = spec/Pipeline.tla actions (walker / channel / collector / main protocol), model-checked by TLC over every
     schedule of 3 files x 2 workers x capacity 1 for every assignment of parse results.
spec->impl: (a) TLC's counter-example schedules (collector gone before a later send; worker panic) are projected to
            gate schedules and replayed on the real binary; (b) MC_C07 enumerates edge-of-grammar constructs x
            language x mode x companion files, each run through the real binary under a watchdog.
impl->spec: the event log of every real run is validated against Trace_Pipeline (all P invariants evaluated at
            every step of the real execution).
"""
import os
import re

from .. import cli, common
from ..common import ToolError

NEEDS = ["driver", "cli"]
WATCHDOG = 10

GOOD = "#[typeshare]\npub struct {name} {{ pub x: u32 }}\n"
NOT_RUST = "#[typeshare]\nthis is not rust {{{ ]]\n"

CONSTRUCTS = {
    "ok_struct": "#[typeshare]\npub struct Edge { pub a: String }\n",
    "empty_tuple_struct": "#[typeshare]\npub struct Edge();\n",
    "empty_tuple_variant": '#[typeshare]\n#[serde(tag = "t", content = "c")]\npub enum Edge { A(), B(u32) }\n',
    "vec_noargs": "#[typeshare]\npub struct Edge { pub a: Vec }\n",
    "option_noargs": "#[typeshare]\npub struct Edge { pub a: Option }\n",
    "hashmap_noargs": "#[typeshare]\npub struct Edge { pub a: HashMap }\n",
    "hashmap_onearg": "#[typeshare]\npub struct Edge { pub a: HashMap<String> }\n",
    "box_noargs": "#[typeshare]\npub struct Edge { pub a: Box }\n",
    "unknown_typeshare_list": "#[typeshare(foo(bar, baz = \"1\"))]\npub struct Edge { #[typeshare(qux(1 + 2))] pub a: u32 }\n",
    "typeshare_lang_list_bad": "#[typeshare]\npub struct Edge { #[typeshare(typescript(type))] pub a: u32, #[typeshare(kotlin(= \"x\"))] pub b: u32, #[typeshare(swift(type = 3))] pub c: u32 }\n",
    "underscore_field_camel": '#[typeshare]\n#[serde(rename_all = "camelCase")]\npub struct Edge { pub _a: u32 }\n',
    "dunder_field_camel": '#[typeshare]\n#[serde(rename_all = "camelCase")]\npub struct Edge { pub __: u32 }\n',
    "nonascii_variant_camel": '#[typeshare]\n#[serde(rename_all = "camelCase")]\npub enum Edge { Écoute, Über }\n',
    "nonascii_field_pascal": '#[typeshare]\n#[serde(rename_all = "PascalCase")]\npub struct Edge { pub éa: u32 }\n',
    # a non-ASCII letter directly before / after an upper-case letter, a digit, an underscore, under each word-splitting rule
    "nonascii_field_snake": '#[typeshare]\n#[serde(rename_all = "snake_case")]\npub struct Edge { pub pokéBall: u32, pub Ünit: u32, pub a_é: u32 }\n',
    "nonascii_field_kebab": '#[typeshare]\n#[serde(rename_all = "SCREAMING-KEBAB-CASE")]\npub struct Edge { pub pokéBall: u32, pub éÉé2: u32 }\n',
    "nonascii_vfield_snake": '#[typeshare]\n#[serde(tag = "t", content = "c")]\npub enum Edge { #[serde(rename_all = "SCREAMING_SNAKE_CASE")] Sv { pokéBall: u32, éX: u32 }, U }\n',
    "const_nonascii": '#[typeshare]\npub const pokéBall: u32 = 3;\n',
    "use_bare_crate": "use foo;\nuse bar as baz;\n#[typeshare]\npub struct Edge { pub a: u32 }\n",
    "use_glob_only": "use foo::*;\nuse self::x::*;\n#[typeshare]\npub struct Edge { pub a: Other }\n",
    "const_int": "#[typeshare]\npub const EDGE: u32 = 5;\n",
    "const_string": '#[typeshare]\npub const EDGE: &str = "x";\n',
    # the types typeshare never shares (C08), as the type of a constant: a diagnostic, whatever the backend would do with them
    "const_usize": "#[typeshare]\npub const EDGE: usize = 250;\n",
    "const_u64": "#[typeshare]\npub const EDGE: u64 = 1;\n",
    "const_i64_neg": "#[typeshare]\npub const EDGE: i64 = -1;\n",
    "const_bool": "#[typeshare]\npub const EDGE: bool = true;\n",
    "const_user_type": "#[typeshare]\npub type Seats = u32;\n#[typeshare]\npub const EDGE: Seats = 5;\n",
    "const_option": "#[typeshare]\npub const EDGE: Option<u32> = None;\n",
    "not_rust": NOT_RUST,
    "not_utf8": b"#[typeshare]\npub struct Edge { pub a: u32 } // \xff\xfe\n",
    "unit_struct": "#[typeshare]\npub struct Edge;\n",
    "empty_enum": "#[typeshare]\npub enum Edge {}\n",
    "generic_map_key": "#[typeshare]\npub struct Edge<T> { pub a: HashMap<T, u32> }\n",
    "serialized_as_garbage": '#[typeshare(serialized_as = "Vec<")]\npub struct Edge { pub a: u32 }\n',
    "tuple_field": "#[typeshare]\npub struct Edge { pub a: (u32, u32) }\n",
    "u64_field": "#[typeshare]\npub struct Edge { pub a: u64 }\n",
    "nested_mod_fn": "mod m { pub fn f() { #[typeshare]\n struct Edge { a: u32 } } }\n",
    "unicode_rename": '#[typeshare]\n#[serde(rename = "Ünï-cödé \\" quote")]\npub struct Edge { #[serde(rename = "a\\"b")] pub a: u32 }\n',
    "raw_ident_field": "#[typeshare]\npub struct Edge { pub r#type: u32, pub r#match: Option<u32> }\n",
    "doc_weird": "#[typeshare]\n/** multi\n * line */\n#[doc = \"\"]\n#[doc = 3]\npub struct Edge { /// d\n pub a: u32 }\n",
    "array_len_expr": "#[typeshare]\npub struct Edge { pub a: [u8; N], pub b: [u8; 2 + 2] }\n",
    "fn_pointer_field": "#[typeshare]\npub struct Edge { pub a: fn(u32) -> u32 }\n",
    "impl_trait_alias": "#[typeshare]\npub type Edge = dyn Fn(u32);\n",
    "lifetime_generic": "#[typeshare]\npub struct Edge<'a, T: 'a + Clone> { pub a: &'a T, pub b: Cow<'a, str> }\n",
    "const_generic": "#[typeshare]\npub struct Edge<const N: usize> { pub a: [u8; N] }\n",
    "where_clause": "#[typeshare]\npub struct Edge<T> where T: Clone { pub a: Vec<T> }\n",
    "macro_item": "macro_rules! m { () => {} }\nm!();\n#[typeshare]\npub struct Edge { pub a: u32 }\n",
    "empty_file_marker": "// #[typeshare] mentioned only in a comment\n",
    # supported programs whose dependency walk re-enters a generic type several times
    "generic_tree": "#[typeshare]\npub struct Edge<T> { pub value: T, pub left: Option<Box<Edge<T>>>, pub right: Option<Box<Edge<T>>> }\n",
    "generic_enum_two_selfrefs": '#[typeshare]\n#[serde(tag = "t", content = "c")]\npub enum Edge<T> { Leaf(T), Neg(Box<Edge<T>>), Pair { l: Box<Edge<T>>, r: Vec<Edge<T>> } }\n',
    "mutual_generic_twice": ("#[typeshare]\npub struct Edge<T> { pub a: Vec<Other<T>>, pub b: Option<Other<T>> }\n"
                             "#[typeshare]\npub struct Other<T> { pub x: Vec<Edge<T>>, pub y: Option<Box<Edge<T>>> }\n"),
    "generic_list": "#[typeshare]\npub struct Edge<T> { pub head: T, pub tail: Option<Box<Edge<T>>> }\n#[typeshare]\npub struct UsesEdge { pub l: Edge<String>, pub m: Vec<Edge<u32>> }\n",
    "nonascii_enum_name": '#[typeshare]\n#[serde(tag = "t", content = "c")]\npub enum Événement { Début(u32), Fin { à: String }, Rien }\n',
    "nonascii_struct_name": "#[typeshare]\npub struct Événement { pub début: u32 }\n#[typeshare]\npub type Übersicht = Vec<Événement>;\n",
}

LANG_ARGS = {"typescript": [], "kotlin": ["--java-package", "com.x"], "swift": [], "scala": ["--scala-package", "com.x"],
             "go": ["--go-package", "p"], "python": []}


# unreadable paths: made after the tree is written (path relative to the tree root, kind, target)
SPECIAL = {
    "dangling_symlink": ("crate_a/src/dangling.rs", "symlink", "missing_target.rs"),
    "symlink_loop_dir": ("crate_a/src/loop", "symlink", ".."),
    "dir_named_rs": ("crate_a/src/fake.rs/inner.rs", "file", "#[typeshare]\npub struct Inner { pub a: u32 }\n"),
    # MC_C07!ConfigSurroundings (the working directory of these runs is crate_a)
    "config_is_dir": ("crate_a/typeshare.toml", "dir", ""),
    "config_is_dir_in_parent": ("typeshare.toml", "dir", ""),
    "config_empty": ("crate_a/typeshare.toml", "file", ""),
    "config_invalid": ("crate_a/typeshare.toml", "file", "this is [not = toml\n"),
    "config_symlink_loop": ("crate_a/typeshare.toml", "symlink", "typeshare.toml"),
    "config_dangling_link": ("crate_a/typeshare.toml", "symlink", "no_such_file.toml"),
    "config_odd_values": ("crate_a/typeshare.toml", "file", '[go]\nuppercase_acronyms = ["ID", "", "_", "a"]\n[swift]\ndefault_decorators = [""]\nprefix = ""\ncodablevoid_constraints = ["", "X"]\n'
                          '[kotlin]\nprefix = ""\n[typescript.type_mappings]\n"" = ""\n"Edge" = ""\n[python.type_mappings]\n"u32" = ""\n[scala.type_mappings]\n"" = "X"\n'),
}


def tree_for(v):
    files = {"crate_a/src/edge.rs": CONSTRUCTS.get(v["construct"], CONSTRUCTS["ok_struct"])}
    comp = v["companion"]
    if comp in ("good", "good_and_bad"):
        files["crate_b/src/good.rs"] = GOOD.format(name="Good")
        files["crate_a/src/zgood.rs"] = GOOD.format(name="ZGood")
    if comp in ("bad", "good_and_bad"):
        files["crate_c/src/bad.rs"] = NOT_RUST
    return files


def diag_names(stderr, files_with_problem):
    return any(os.path.basename(f) in stderr for f in files_with_problem)


def out_stem(lang, rel, mode):
    """stem of the output file the items of source file `rel` go to (Workspace!FileName)"""
    if mode == "single":
        return "out"
    parts = rel.split("/")
    src = [i for i, p in enumerate(parts[:-1]) if p == "src"]
    crate = parts[src[-1] - 1].replace("-", "_") if src and src[-1] > 0 else "out"
    return "".join(w.capitalize() for w in crate.split("_")) if lang == "swift" else crate


def run_vector(work, idx, v, trace=True):
    d = os.path.join(work, f"v{idx}")
    files = tree_for(v)
    cli.make_tree(d, files)
    if v["construct"] in SPECIAL:
        rel, kind, arg = SPECIAL[v["construct"]]
        os.makedirs(os.path.dirname(os.path.join(d, rel)), exist_ok=True)
        if kind == "symlink":
            os.symlink(arg, os.path.join(d, rel))
        elif kind == "dir":
            os.makedirs(os.path.join(d, rel), exist_ok=True)
        else:
            open(os.path.join(d, rel), "w").write(arg)
        if v["construct"] != "symlink_loop_dir" and not v["construct"].startswith("config_"):      # a directory link is not followed: it is no work item of the walker
            files = dict(files, **{rel: ""})       # the diagnostic may name this path
    out = os.path.join(d, "out")
    args = ["-l", v["lang"]] + (LANG_ARGS[v["lang"]] if v.get("packages", "given") == "given" else [])
    if v["mode"] == "single":
        outpath = os.path.join(out, "out." + common.EXT[v["lang"]])
        os.makedirs(out, exist_ok=True)
        args += ["-o", outpath]
    else:
        args += ["-d", out]
    inv = v.get("invocation", "absolute")
    cwd = None
    if inv == "absolute":
        args.append(d)
    else:          # from inside crate_a: `src` (+ the sibling crates by relative path) or `.`
        cwd = os.path.join(d, "crate_a")
        others = sorted({f.split("/")[0] for f in files if not f.startswith("crate_a/")})
        args += (["src"] if inv == "relative_src" else ["."]) + [os.path.join("..", o, "src") for o in others]
    env = {"TYPESHARE_VERIF_THREADS": "2"}
    tr = os.path.join(d, "trace.ndjson")
    if trace:
        env["TYPESHARE_VERIF_TRACE"] = tr
    r = cli.run_cli(args, env=env, timeout=WATCHDOG, cwd=cwd)
    written = [f for f in cli.snapshot(out)] if os.path.isdir(out) else []
    stems = {os.path.splitext(os.path.basename(f))[0] for f in files}
    names = {"Edge": "edge", "EDGE": "edge", "Good": "good", "ZGood": "zgood", "Événement": "edge", "Inner": "inner"}
    out_of = {os.path.splitext(os.path.basename(f))[0]: out_stem(v["lang"], f, v["mode"]) for f in files}
    header, events = cli.read_trace(tr, stems, names, 2, 100, r["code"] if r["exit"] != "timeout" else None, out_of, v["mode"] == "single") if trace else (None, [])
    return r, written, header, events, files


def outcome_class(r, written, files):
    """The facts layer P talks about."""
    if r["exit"] == "timeout":
        return "hang"
    if r["exit"] == "panic":
        m = re.search(r"panicked at ([^\n:]+:\d+)", r["stderr"])
        return "panic@" + (m.group(1) if m else "?")
    if r["exit"] == "signal":
        return f"signal{r['code']}"
    if r["exit"] == "ok":
        return "exit0"
    return "exit1-named" if diag_names(r["stderr"], files) else "exit1-unnamed"


def judge_vector(chk, v, r, written, files):
    oc = outcome_class(r, written, files)
    key = (v["construct"], v["lang"], v["mode"], v["companion"], v.get("packages", "given"), v.get("invocation", "absolute"))
    chk.judged(key)
    if oc == "exit0" or oc == "exit1-named":
        return oc
    if v.get("expect") == "config_error" and oc == "exit1-unnamed" and re.search(r"--(go|scala)-package", r["stderr"]):
        return "exit1-config"        # MC_C07!Expect: no file is at fault, the diagnostic names the missing option
    site = oc
    if oc.startswith("panic@"):
        site = "panic@" + re.sub(r"^.*/(core|cli|lib)/", r"\1/", oc[6:])
    comp = "alone" if v["companion"] == "none" else "with-companions"
    if v.get("packages", "given") == "none":
        comp += "+no-package-option"
    if site == "exit1-unnamed" and "+" not in comp:
        comp = "anycompanion"      # a diagnostic without a file name comes from a stage that has lost the file: companions do not matter
    # one root cause, one signature: whatever the constant looks like, Kotlin / Swift / Scala refuse it in the generation stage
    label = "const_int" if v["construct"].startswith("const_") and "onstants are not supported" in r["stderr"] else v["construct"]
    chk.mismatch(f"C07/{label}/{v['lang'] if 'language' in site or v['construct'].startswith('const') or 'language/' in site else 'anylang'}/{comp}/{site}",
                 f"{v['construct']} ({v['lang']}, {v['mode']}, companion={v['companion']}): {oc}; stderr: {r['stderr'][-300:].strip()}",
                 {"vector": v}, "exit 0 with output, or exit != 0 with a diagnostic naming the file", oc)
    return oc


def validate_traces(chk, runs):
    """runs: [(header, events, label)] -> each validated separately against Trace_Pipeline."""
    n_ok = 0
    import concurrent.futures as cf
    # a configuration error ends the run before the pipeline starts: there is no behaviour of Pipeline.tla to validate
    todo = [(h, e, l, o) for h, e, l, o in runs if h is not None and e and o != "exit1-config"]
    with cf.ThreadPoolExecutor(max_workers=8) as ex:
        futs = {ex.submit(common.trace_validate, "Trace_Pipeline", [h] + e, None, 300): (l, id(e)) for h, e, l, o in todo}
        results = {futs[f]: f.result() for f in cf.as_completed(futs)}
    for header, events, label, oc in todo:
        ok, matched, res = results[(label, id(events))]
        chk.states += res.distinct
        chk.transitions += res.states
        if res.violation and oc not in ("exit0", "exit1-named"):
            continue      # the same fact was already judged directly from the process outcome
        if res.violation:
            # a layer-P invariant failed on the real execution (e.g. PNoPanicExit): that is the property speaking
            chk.mismatch(f"C07/trace/{label}/{res.violation.split()[1] if res.violation.startswith('Invariant') else 'rejected'}",
                         f"Trace_Pipeline: {res.violation} on the real run ({label}, outcome {oc})", {"label": label},
                         "P invariants hold in every state of the execution", res.violation)
        elif matched != len(events):
            # not a behaviour of the model: either the model or a hook is off -> MODEL-DRIFT, never a violation by itself
            chk.model_drift(f"Trace_Pipeline consumed {matched}/{len(events)} events of run {label} (outcome {oc}); "
                            f"next event: {events[matched] if matched < len(events) else None}")
        else:
            n_ok += 1
    chk.traces += n_ok
    return n_ok


def project_schedule(states):
    """TLC counter-example (list of state dicts, TLA+ text) -> gate schedule lines for the real binary."""
    sched = []
    prev = None

    def fn(txt):
        return dict(re.findall(r'(\w+) \|-> "([^"]*)"', txt))

    for s in states:
        if prev is not None:
            wpc, ppc = fn(s.get("wpc", "")), fn(prev.get("wpc", ""))
            wf, pwf = fn(s.get("wfile", "")), fn(prev.get("wfile", ""))
            for w in wpc:
                if ppc.get(w) == "parse" and wpc[w] == "send":
                    sched.append(f"Parsed:{wf[w]}")
                if ppc.get(w) == "send" and wpc[w] in ("sent", "dead"):
                    sched.append(f"SendStart:{pwf[w]}")
            if prev.get("col") == '"run"' and s.get("col") == '"retErr"':
                sched.append("CollectorExit:")
        prev = s
    if states:
        wpc, wf = fn(states[-1].get("wpc", "")), fn(states[-1].get("wfile", ""))
        for w in sorted(wpc):
            if wpc[w] == "send":
                sched.append(f"SendStart:{wf[w]}")       # the late send the query was looking for
    return sched


def replay_model_schedules(chk, work):
    """TLC explores the protocol; its counter-examples are predictions that are replayed through the gates."""
    runs = []
    for cfg, must_hold in (("clean", True), ("err", True), ("folder", True), ("panic", False), ("latesend", False)):
        res = common.run_tlc("MC_Pipeline", cfg=f"MC_Pipeline_{cfg}", workers=4, timeout=600, allow_violation=True)
        chk.add_tlc(f"MC_Pipeline[{cfg}]", res)
        if must_hold and res.violation:
            raise ToolError(f"Pipeline model violates P with result kinds of config {cfg}: {res.violation}")
        chk.extra.setdefault("model_results", {})[cfg] = res.violation or "all P properties hold"
        if cfg == "panic":
            # model-level prediction: a panic inside a walker thread never decrements active_workers, the other
            # workers idle forever and thread::scope never returns. Not a violation by itself: it needs an input
            # that makes the parser panic, which (b) searches for on the real binary.
            chk.extra["model_prediction_worker_panic"] = res.violation or "none"
            continue
        if cfg != "latesend":
            continue
        if not res.violation:
            raise ToolError("the reachability query NoLateSend was not violated: no schedule to replay")
        states = common.tlc_counterexample(res.out)
        sched = project_schedule(states)
        result = dict(re.findall(r'(\w+) \|-> "([^"]*)"', states[0].get("result", "")))
        chk.extra["replayed_schedule"] = {"result": result, "schedule": sched, "model_outcome": "exit1 (late sender stops walking)"}
        chk.sample({"tlc_counterexample_schedule": sched, "file_results": result})
        for attempt in range(3):
            d = os.path.join(work, f"sched{attempt}")
            files = {}
            for f, kind in result.items():
                files[f"d_{f}/src/{f}.rs"] = {"ok": GOOD.format(name=f.upper()), "err": NOT_RUST, "none": "pub struct N;\n"}.get(kind, GOOD.format(name=f.upper()))
            cli.make_tree(d, files)
            sp = os.path.join(d, "schedule.txt")
            open(sp, "w").write("\n".join(sched) + "\n")
            tr = os.path.join(d, "trace.ndjson")
            r = cli.run_cli(["-l", "typescript", "-o", os.path.join(d, "out.ts"), d],
                            env={"TYPESHARE_VERIF_THREADS": "3", "TYPESHARE_VERIF_SCHEDULE": sp, "TYPESHARE_VERIF_TRACE": tr}, timeout=WATCHDOG)
            stems = set(result)
            header, events = cli.read_trace(tr, stems, {f.upper(): f for f in result}, 3, 100, r["code"] if r["exit"] != "timeout" else None)
            fol = cli.followed(events, sched)
            oc = outcome_class(r, [], [f + ".rs" for f, k in result.items() if k == "err"])
            chk.extra.setdefault("schedule_replays", []).append({"attempt": attempt, "followed": fol, "outcome": oc})
            if not fol:
                continue
            chk.judged(("schedule", tuple(sched)))
            runs.append((header, events, "tlc-schedule", oc))
            if oc not in ("exit0", "exit1-named"):
                chk.mismatch(f"C07/schedule/err-then-send/{re.sub(r'^panic@.*/(core|cli)/', r'panic@' + chr(92) + '1/', oc)}",
                             f"TLC schedule {sched} replayed on the real binary: {oc}; stderr: {r['stderr'][-200:].strip()}",
                             {"schedule": sched, "result": result}, "exit != 0 with a diagnostic naming the file", oc)
            break
    return runs


def corpus_panics(chk, n):
    """(d) a broad corpus of supported programs (C11's random program generator: all item kinds, containers,
    generics, renames, overrides, self and mutual recursion) through the library in all six languages:
    a panic or abort of the generator is C07's business wherever it comes from."""
    from . import c11
    from .. import render
    rng = chk.rng
    jobs, meta = [], []
    for i in range(n):
        nodes, edges = c11.random_program(rng, rng.randint(1, 8), cyclic=rng.random() < 0.6)
        has_const = any(x["kind"] == "const" for x in nodes)
        rec = [k for k, x in enumerate(nodes) if x["kind"] in ("struct", "tagged_enum")]
        if rec and rng.random() < 0.4:
            a = rng.choice(rec)     # recursive shapes: several self references in one item (trees, expressions)
            for _ in range(rng.randint(2, 3)):
                carrier = "field" if nodes[a]["kind"] == "struct" else rng.choice(["newtype", "vfield"])
                edges.append({"src": a, "dst": a, "carrier": carrier, "wrapper": rng.choice(["option", "vec", "mapv", "direct"]), "ovr": "none"})
        items, nodes2, edges2 = c11.build_program(nodes, edges)
        src = render.program(items)
        for lang in common.LANGS:
            if has_const and lang in ("kotlin", "swift"):
                continue     # already a known finding of (b): write_const is todo!()
            jobs.append({"id": len(jobs), "lang": lang, "files": [{"src": src}],
                         "cfg": {"package": "com.x" if lang in ("kotlin", "scala") else "p" if lang == "go" else ""}})
            meta.append((lang, src, [e for e in edges2 if e["src"] == e["dst"]]))
    bad = 0
    for part_j, part_m in zip(common.chunks(jobs, 4000), common.chunks(meta, 4000)):
        for res, (lang, src, selfrefs) in zip(common.run_driver("gen", part_j), part_m):
            chk.judged(("corpus", lang, hash(src)))
            if res["status"] in ("panic", "abort", "hang"):
                bad += 1
                site = re.sub(r"^.*/(core|cli|lib)/", r"\1/", (res.get("panic") or "?").split(": ")[0]) if res["status"] == "panic" else res["status"]
                chk.mismatch(f"C07/corpus/{lang if 'language/' in site else 'anylang'}/{res['status']}@{site}",
                             f"generator {res['status']} on a supported program ({lang}): {res.get('panic', '')[:200]}",
                             {"src": src, "lang": lang}, "no panic", res.get("panic"))
    chk.extra["corpus_programs"] = n
    chk.extra["corpus_jobs"] = len(jobs)
    chk.extra["corpus_panics"] = bad


def odd_type_source(ty, pos):
    g = "<T>" if "T" in re.findall(r"\bT\b", ty) else ""
    base = "#[typeshare]\npub struct User { pub u: u32 }\n#[typeshare]\npub struct Gen<X> { pub g: X }\n"
    if pos == "field":
        return base + f"#[typeshare]\npub struct Edge{g} {{ pub keep: u32, pub odd: {ty} }}\n"
    if pos == "vfield":
        return base + f'#[typeshare]\n#[serde(tag = "t", content = "c")]\npub enum Edge{g} {{ Keep(u32), Sv {{ keep: u32, odd: {ty} }} }}\n'
    if pos == "payload":
        return base + f'#[typeshare]\n#[serde(tag = "t", content = "c")]\npub enum Edge{g} {{ Keep(u32), Odd({ty}), U }}\n'
    if pos == "garg":
        return base + f"#[typeshare]\npub struct Edge{g} {{ pub odd: Gen<{ty}>, pub more: Vec<Gen<Option<{ty}>>> }}\n"
    return base + f"#[typeshare]\npub type Edge{g} = {ty};\n"


def odd_types(chk):
    """(c) MC_C07_types: unusual type expressions x carrier position x language through the library: no panic, no abort."""
    res = common.run_tlc("MC_C07_types", cfg="MC_C07_types", workers=2, timeout=300)
    chk.add_tlc("MC_C07_types", res)
    vs = res.replays
    jobs = [{"id": i, "lang": v["lang"], "files": [{"src": odd_type_source(v["ty"], v["pos"])}],
             "cfg": {"package": "com.x" if v["lang"] in ("kotlin", "scala") else "p" if v["lang"] == "go" else ""}} for i, v in enumerate(vs)]
    bad = 0
    for v, r in zip(vs, common.run_driver("gen", jobs)):
        chk.judged(("oddtype", v["ty"], v["pos"], v["lang"]))
        if r["status"] in ("panic", "abort", "hang"):
            bad += 1
            site = re.sub(r"^.*/(core|cli|lib)/", r"\1/", (r.get("panic") or "?").split(": ")[0]) if r["status"] == "panic" else r["status"]
            cls = re.sub(r"\b(u8|u32|String|bool|char|User|T)\b", "_", v["ty"])
            chk.mismatch(f"C07/oddtype/{v['lang']}/{v['pos']}/{cls}/{r['status']}@{site}",
                         f"generator {r['status']} for `{v['ty']}` as {v['pos']} ({v['lang']}): {str(r.get('panic'))[:200]}",
                         {"vector": v, "src": jobs[0]["files"][0]["src"]}, "output or a reported error", r.get("panic"))
    chk.extra["odd_type_vectors"] = len(vs)
    chk.extra["odd_type_panics"] = bad


def names_source(kind, names):
    names = sorted(names)
    if kind == "wire_tagged_variant":
        body = "".join(f'    #[serde(rename = "{n}")]\n    V{i}(u32),\n' for i, n in enumerate(names))
        return f'#[typeshare]\n#[serde(tag = "t", content = "c")]\npub enum Edge {{\n{body}    Last {{ a: u32 }},\n}}\n'
    if kind == "wire_unit_variant":
        body = "".join(f'    #[serde(rename = "{n}")]\n    V{i},\n' for i, n in enumerate(names))
        return f"#[typeshare]\npub enum Edge {{\n{body}}}\n"
    if kind == "wire_field":
        body = "".join(f'    #[serde(rename = "{n}")]\n    pub f{i}: u32,\n' for i, n in enumerate(names))
        return f"#[typeshare]\npub struct Edge {{\n{body}}}\n"
    if kind == "wire_vfield":
        body = "".join(f'        #[serde(rename = "{n}")]\n        f{i}: u32,\n' for i, n in enumerate(names))
        return f'#[typeshare]\n#[serde(tag = "t", content = "c")]\npub enum Edge {{\n    Sv {{\n{body}    }},\n    U,\n}}\n'
    if kind == "ident_field":
        return "#[typeshare]\npub struct Edge {\n" + "".join(f"    pub {n}: u32,\n" for n in names) + "}\n"
    if kind == "ident_variant":
        return '#[typeshare]\n#[serde(tag = "t", content = "c")]\npub enum Edge {\n' + "".join(f"    {n}(u32),\n" for n in names) + "    Sv { a: u32 },\n}\n"
    if kind == "ident_type":
        return "".join(f"#[typeshare]\npub struct {n} {{ pub a: u32 }}\n" for n in names) + "#[typeshare]\npub struct Edge {\n" + "".join(f"    pub f{i}: {n},\n" for i, n in enumerate(names)) + "}\n"
    raise ToolError(f"no rendering for kind {kind}")


def colliding_names(chk):
    """(d) MC_C07_names: sets of spellings that collide under a backend's normalisation x place x language through the library."""
    res = common.run_tlc("MC_C07_names", cfg="MC_C07_names_thorough" if chk.tier == "thorough" else "MC_C07_names_quick", workers=2, timeout=300)
    chk.add_tlc("MC_C07_names", res)
    vs = res.replays
    if not vs:
        raise ToolError("MC_C07_names produced no vectors")
    jobs = [{"id": i, "lang": v["lang"], "files": [{"src": names_source(v["kind"], v["names"])}],
             "cfg": {"package": "com.x" if v["lang"] in ("kotlin", "scala") else "p" if v["lang"] == "go" else ""}} for i, v in enumerate(vs)]
    bad = 0
    for v, j, r in zip(vs, jobs, common.run_driver("gen", jobs, job_timeout=6)):
        chk.judged(("names", v["kind"], tuple(sorted(v["names"])), v["lang"]))
        if r["status"] in ("panic", "abort", "hang"):
            bad += 1
            site = re.sub(r"^.*/(core|cli|lib)/", r"\1/", (r.get("panic") or "?").split(": ")[0]) if r["status"] == "panic" else r["status"]
            chk.mismatch(f"C07/names/{v['lang']}/{v['kind']}/{len(v['names'])}-way/{r['status']}@{site}",
                         f"generator {r['status']} for colliding names {sorted(v['names'])} as {v['kind']} ({v['lang']}): {str(r.get('panic'))[:200]}",
                         {"vector": v, "src": j["files"][0]["src"]}, "output or a reported error", r.get("panic"))
    chk.extra["name_collision_vectors"] = len(vs)
    chk.extra["name_collision_failures"] = bad


def _panic_site(stderr):
    m = re.search(r"panicked at ([^:\n]+:\d+)", stderr or "")
    return m.group(1) if m else "?"


def workspaces(chk):
    """(e) MC_C06_ws under MC_C07_ws.cfg: workspaces of several crates in which one Rust identifier names types of several crates (renamed
    by serde in none / one / all of them) and a consumer crate names it in every form (import, glob, qualified path, facade, not at all):
    the real binary, folder and single-file mode, terminates with output or with a reported error (Pipeline!NoPanicExit)."""
    import concurrent.futures as cf
    from . import c06
    res = common.run_tlc("MC_C06_ws", cfg="MC_C07_ws", workers=2, timeout=300)
    chk.add_tlc("MC_C06_ws[C07]", res)
    if not res.replays:
        raise ToolError("MC_C06_ws produced no cases")
    work = common.scratch("c07ws")

    def one(a):
        k, c = a
        d = os.path.join(work, f"w{k}")
        cli.make_tree(os.path.join(d, "src_root"), c06.ws_files(c))
        r, _sha, _ = c06.run_once(d, c["lang"], c["mode"], {}, "s0")
        return c, r

    bad = 0
    with cf.ThreadPoolExecutor(max_workers=12) as ex:
        for c, r in ex.map(one, list(enumerate(res.replays))):
            chk.judged(("ws", c["form"], c["providers"], c["renames"], c["lang"], c["mode"]))
            if r["exit"] in ("panic", "timeout", "signal"):
                bad += 1
                site = re.sub(r"^.*/(core|cli|lib)/", r"\1/", _panic_site(r["stderr"])) if r["exit"] == "panic" else r["exit"]
                chk.mismatch(f"C07/workspace/{c['mode']}/{c['form']}/renames-{c['renames']}/{r['exit']}@{site}",
                             f"{c['lang']} {c['mode']}: workspace {c}: the run ends with {r['exit']}: {r['stderr'][-240:].strip()}",
                             {"workspace": c}, "output or a reported error", r["exit"])
    chk.extra["workspace_runs"] = len(res.replays)
    chk.extra["workspace_failures"] = bad


def run(chk):
    thorough = chk.tier == "thorough"
    chk.rule = ("model: every schedule of 3 files x 2 workers x capacity 1 for all parse-result assignments (TLC, with fairness); "
                "spec->impl: TLC counter-example schedules replayed through gates; " + ("152" if thorough else "38") +
                " edge constructs x 6 languages x single/multi-file" + (" x 4 companion sets" if thorough else "") +
                " run on the real binary under a watchdog; impl->spec: each run's event log validated against Trace_Pipeline. "
                "distinct = (construct, language, mode, companion).")
    chk.assumptions = [f"a run still alive after {WATCHDOG}s is a hang (runs take ~10 ms)",
                       "worker identity in traces = OS thread id; directory entries are dropped from the log"]
    work = common.scratch("c07")
    runs = replay_model_schedules(chk, work)
    res = common.run_tlc("MC_C07", cfg="MC_C07_thorough" if thorough else "MC_C07_quick", workers=2, timeout=300)
    chk.add_tlc("MC_C07", res)
    chk.exhaustive = True
    vectors = res.replays
    unknown = {v["construct"] for v in vectors} - set(CONSTRUCTS) - set(SPECIAL)
    if unknown:
        raise ToolError(f"no rendering for constructs {unknown}")
    import concurrent.futures as cf
    outcomes = {}
    with cf.ThreadPoolExecutor(max_workers=12) as ex:
        futs = {ex.submit(run_vector, work, i, v): v for i, v in enumerate(vectors)}
        for fu in cf.as_completed(futs):
            v = futs[fu]
            r, written, header, events, files = fu.result()
            problem_files = ["edge.rs"] + (["bad.rs"] if v["companion"] in ("bad", "good_and_bad") else [])
            if v["construct"] in SPECIAL:
                problem_files.append(os.path.basename(SPECIAL[v["construct"]][0]))
            oc = judge_vector(chk, v, r, written, problem_files)
            outcomes[oc.split("@")[0]] = outcomes.get(oc.split("@")[0], 0) + 1
            if oc == "exit0" and not written and v["construct"] not in ("empty_file_marker",):
                chk.mismatch(f"C07/{v['construct']}/{v['lang'] if v.get('invocation', 'absolute') == 'absolute' else 'anylang+' + v['invocation'] + '+' + v['mode']}/exit0-without-output", f"{v}: exit 0 but nothing written",
                             {"vector": v}, "output written", "none")
            if oc != "hang":
                runs.append((header, events, f"{v['construct']}/{v['lang']}/{v['mode']}/{v['companion']}", oc))
    chk.extra["outcome_classes"] = outcomes
    chk.sample({"vector": vectors[0]})
    # trace-validate a stratified subset (every run in thorough)
    subset = runs if thorough else runs[:6] + runs[6::5]
    validate_traces(chk, subset)
    chk.extra["runs_trace_validated"] = len(subset)
    corpus_panics(chk, 3000 if thorough else 300)
    odd_types(chk)
    colliding_names(chk)
    workspaces(chk)


def replay(chk, rec):
    c = rec["case"]
    work = common.scratch("c07r")
    if "vector" in c:
        v = c["vector"]
        r, written, header, events, files = run_vector(work, 0, v)
        judge_vector(chk, v, r, written, ["edge.rs"] + (["bad.rs"] if v["companion"] in ("bad", "good_and_bad") else []) +
                     ([os.path.basename(SPECIAL[v["construct"]][0])] if v["construct"] in SPECIAL else []))
        chk.mismatches = {(rec["signature"] if k.split("/")[1] == rec["signature"].split("/")[1] else k): m for k, m in chk.mismatches.items()}
    elif "workspace" in c:
        workspaces(chk)
        chk.mismatches = {k: m for k, m in chk.mismatches.items() if k == rec["signature"]}
    elif "schedule" in c:
        replay_model_schedules(chk, work)
    elif "src" in c:
        res = common.run_driver("gen", [{"id": 0, "lang": c["lang"], "files": [{"src": c["src"]}],
                                         "cfg": {"package": "com.x" if c["lang"] in ("kotlin", "scala") else "p" if c["lang"] == "go" else ""}}])[0]
        if res["status"] in ("panic", "abort", "hang"):
            chk.mismatch(rec["signature"], rec["what"], c, "no panic", res.get("panic"))
