"""Layer B: run abstract programs through the real library in several languages and read the observations back."""
from . import common
from .extract import go as x_go, kt as x_kt, py as x_py, scala as x_scala, swift as x_swift, ts as x_ts
from .extract.base import ExtractError, LexError

EXTRACT = {"typescript": x_ts, "kotlin": x_kt, "swift": x_swift, "scala": x_scala, "go": x_go, "python": x_py}
DEFAULT_CFG = {"typescript": {}, "kotlin": {"package": "com.x"}, "swift": {}, "scala": {"package": "com.x", "module_name": ""},
               "go": {"package": "p"}, "python": {}}


def extract(lang, text):
    if lang == "swift":
        return x_swift.extract(text, strict_keywords=False)
    return EXTRACT[lang].extract(text)


def generate(sources, langs=None, cfgs=None, chunk=20000, multi=False, extra_files=None, mixed=True):
    """sources: list of Rust source strings. Returns [{lang: result}] where result is
    {"status": ok|error|panic|abort|unreadable, "obs": observation, "text": output, "errors"/"panic": ...}"""
    langs = langs or common.LANGS
    jobs = []
    folder_flags = []
    import hashlib, os as _os
    force = _os.environ.get("VERIF_FORCE_FOLDER")          # experiment switch: 1 = every case in folder mode
    for i, src in enumerate(sources):
        for lang in langs:
            cfg = dict(DEFAULT_CFG[lang])
            if cfgs:
                cfg.update(cfgs[i].get(lang, {}) if isinstance(cfgs, list) else cfgs.get(lang, {}))
            # one case in four (chosen by the source text, so a replay takes the same path) goes through folder-output mode:
            # the definitions of a crate are the same in both modes (C14), so every check also exercises that code path
            mixed = int(hashlib.sha1(src.encode()).hexdigest()[:2], 16) % 4 == 0 and force != "0" and mixed
            folder = multi or ((force == "1" or mixed) and not extra_files)
            folder_flags.append(folder)
            if folder:       # folder-output mode of the library: one crate "cratex", output keyed by the crate name
                jobs.append({"id": len(jobs), "lang": lang, "multi_file": True, "cfg": cfg,
                             "files": [{"src": src, "crate": "cratex", "path": "cratex/src/lib.rs", "out": "cratex"}] + (extra_files[i] if extra_files else [])})
            else:
                jobs.append({"id": len(jobs), "lang": lang, "files": [{"src": src}], "cfg": cfg})
    results = []
    for part in common.chunks(jobs, chunk):
        results += common.run_driver("gen", part)
    out = []
    k = 0
    for i in range(len(sources)):
        per = {}
        for lang in langs:
            r = results[k]
            k += 1
            if r["status"] == "ok":
                text = r["outputs"].get("cratex" if folder_flags[k - 1] else "", "")
                try:
                    per[lang] = {"status": "ok", "obs": extract(lang, text), "text": text}
                except (ExtractError, LexError, RecursionError) as e:
                    per[lang] = {"status": "unreadable", "text": text, "why": f"{type(e).__name__}: {e}"}
            else:
                per[lang] = {"status": r["status"], "errors": r.get("errors"), "panic": r.get("panic")}
        out.append(per)
    return out


def find_def(obs, *names):
    for d in obs["defs"]:
        if d["name"] in names:
            return d
    return None


def struct_variant_members(lang, obs, enum_names, variant_ident, variant_wire=None):
    """Members of a struct variant: inline (TypeScript) or the derived helper struct (other languages)."""
    if lang == "typescript":
        e = find_def(obs, *enum_names)
        if not e:
            return None
        vs = [v for v in e.get("variants", []) if v.get("payload") == "struct" and (variant_wire is None or v["wire"] == variant_wire)]
        return vs[0]["members"] if vs else None
    for en in enum_names:
        d = find_def(obs, f"{en}{variant_ident}Inner")
        if d:
            return instantiate(d, helper_reference(obs, enum_names, d["name"]))
    return None


def helper_reference(obs, enum_names, helper_name):
    """the type written where the enum refers to its derived helper type (with its generic ARGUMENTS), or None"""
    e = find_def(obs, *enum_names)
    for v in (e or {}).get("variants", []):
        t = v.get("ty")
        if isinstance(t, dict) and t.get("k") == "user" and t.get("n") == helper_name:
            return t
    return None


def subst(ty, m):
    if not isinstance(ty, dict):
        return ty
    if ty.get("k") == "user" and not ty.get("args") and ty.get("n") in m:
        return m[ty["n"]]
    out = dict(ty)
    for k in ("e", "key", "val"):
        if k in out:
            out[k] = subst(out[k], m)
    if "args" in out:
        out["args"] = [subst(a, m) for a in out["args"]]
    return out


def instantiate(d, ref):
    """members of a generic definition as seen through a reference `Name<args>`: the declared parameters are replaced by the
    arguments of the reference, position by position (no reference, or no arguments: the members as declared)"""
    ms = d.get("members")
    gens = d.get("generics") or []
    args = (ref or {}).get("args") or []
    if ms is None or not gens or len(gens) != len(args):
        return ms
    m = dict(zip(gens, args))
    return [dict(x, ty=subst(x["ty"], m)) for x in ms]
