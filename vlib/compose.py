"""Compose.tla: what a run generates for an item does not depend on the unrelated items generated in the same run.

Shared by C01 (facet keys), C02 (wires), C04 (optional), C05 (types): MC_Compose enumerates (item, neighbour before, neighbour after)
over a menu of self-contained items; every program is generated in 6 languages through the library; the facet of the item's
definitions read from the run with neighbours is compared (Trace_Compose, Compose!Independent) with the facet read from the run
that generates the item alone.
"""
from . import common, observe
from .common import ToolError

# menu of self-contained items; {N} is the item's name
MENU = {
    "s_plain": "#[typeshare]\npub struct {N} {{ pub a: u32, pub b: String }}\n",
    "s_opt": "#[typeshare]\npub struct {N} {{ pub a: Option<String>, #[serde(default)] pub b: u32, pub c: Option<Option<bool>> }}\n",
    "s_cont": "#[typeshare]\npub struct {N} {{ pub v: Vec<Option<Vec<String>>>, pub m: HashMap<String, Vec<u32>>, pub arr: [u8; 4], pub o: Option<HashMap<String, String>> }}\n",
    "s_cont2": "#[typeshare]\npub struct {N} {{ pub v: Vec<Option<Vec<u32>>>, pub m: HashMap<String, Vec<bool>>, pub arr: [u8; 2], pub o: Option<HashMap<String, u32>> }}\n",
    "s_kebab": '#[typeshare]\n#[serde(rename_all = "kebab-case")]\npub struct {N} {{ pub user_name: String, pub id: u32 }}\n',
    "s_dashed_last_word": '#[typeshare]\npub struct {N} {{ #[serde(rename = "first-key")] pub first: String, pub last: u32 }}\n',
    "s_generic": "#[typeshare]\npub struct {N}<T> {{ pub v: T, pub l: Vec<T> }}\n",
    "e_unit": "#[typeshare]\npub enum {N} {{ One, Two }}\n",
    "e_unit_renamed": '#[typeshare]\n#[serde(rename_all = "SCREAMING_SNAKE_CASE")]\npub enum {N} {{ FirstOne, SecondOne }}\n',
    "e_tagged": '#[typeshare]\n#[serde(tag = "t", content = "c")]\npub enum {N} {{ A(u32), B {{ x: String, y: Option<u32> }}, C }}\n',
    "e_tagged_generic": '#[typeshare]\n#[serde(tag = "kind", content = "data")]\npub enum {N}<T> {{ A(T), B {{ v: Vec<T> }}, C }}\n',
    "alias": "#[typeshare]\npub type {N} = Vec<String>;\n",
    "alias_cont": "#[typeshare]\npub type {N} = HashMap<String, Option<Vec<u32>>>;\n",
    "s_doc": "/// Documented\n/// on two lines\n#[typeshare]\npub struct {N} {{\n    /// the field\n    pub a: u32,\n}}\n",
    "s_unit_field": "#[typeshare]\npub struct {N} {{ pub u: (), pub x: u32 }}\n",
    "s_keyword": "#[typeshare]\npub struct {N} {{ pub r#type: u32, pub from: String, pub class: bool }}\n",
}
SUBJECT, BEFORE, AFTER = "Mmm", "Aaa", "Zzz"


def scrub(x):
    """an extractor record without positions (line numbers move with the neighbours) and without nulls (TLC's JSON has none)"""
    if isinstance(x, dict):
        return {k: scrub(v) for k, v in sorted(x.items()) if k not in ("line", "lines", "pos", "span") and v is not None}
    if isinstance(x, list):
        return [scrub(v) for v in x]
    return "<null>" if x is None else x


def family(obs, name, prefix=""):
    """the definitions that belong to the item called `name` (the item and what is derived from it: <name><Variant>Inner ...), sorted by name"""
    def mine(n):
        for p in (prefix + name, name):
            if n == p or (n.startswith(p) and n[len(p)].isupper()):
                return True
        return False
    return sorted([d for d in obs["defs"] if mine(d["name"])], key=lambda d: d["name"])


def neighbour_names(c):
    """(name of the neighbour that sorts before, name of the one that sorts after) - MC_Compose!Namings"""
    return {"far": (BEFORE, AFTER), "prefix": (SUBJECT[:-1], SUBJECT + "m"), "case": (SUBJECT.upper(), SUBJECT.lower())}[c.get("naming", "far")]


def facet(defs, which):
    out = []
    for d in defs:
        rec = {"name": d["name"], "kind": d.get("kind", "")}
        ms = d.get("members") or []
        vs = d.get("variants") or []
        if which == "keys":
            rec["members"] = [m.get("key") for m in ms]
            rec["variant_members"] = [[m.get("key") for m in (v.get("members") or [])] for v in vs]
        elif which == "wires":
            rec["wires"] = [v.get("wires") or [v.get("wire")] for v in vs]
            rec["tag"] = d.get("tag_keys", [])
            rec["content"] = d.get("content_keys", [])
        elif which == "optional":
            rec["members"] = [bool(m.get("optional")) for m in ms]
            rec["variant_members"] = [[bool(m.get("optional")) for m in (v.get("members") or [])] for v in vs]
            rec["payloads"] = [bool(v.get("optional")) for v in vs]
        elif which == "types":
            rec["members"] = [m.get("ty") for m in ms]
            rec["variant_members"] = [[m.get("ty") for m in (v.get("members") or [])] for v in vs]
            rec["payloads"] = [v.get("ty") for v in vs]
            rec["target"] = d.get("target")
            rec["generics"] = d.get("generics")
        else:
            raise ValueError(which)
        out.append(rec)
    return scrub(out)


def program(c):
    nb, na = neighbour_names(c)
    before = MENU[c["before"]].format(N=nb) if c["before"] != "none" else ""
    after = MENU[c["after"]].format(N=na) if c["after"] != "none" else ""
    subject = MENU[c["item"]].format(N=SUBJECT)
    if c.get("order", "as_named") == "crossed":          # the source text of the neighbour stands on the other side of the item
        return after + subject + before
    return before + subject + after


def run(chk, which):
    """which: keys | wires | optional | types"""
    thorough = chk.tier == "thorough"
    res = common.run_tlc("MC_Compose", cfg="MC_Compose_thorough" if thorough else "MC_Compose_quick", workers=2, timeout=300)
    chk.add_tlc("MC_Compose", res)
    cases = res.replays
    if not cases:
        raise ToolError("MC_Compose produced no cases")
    unknown = {c[k] for c in cases for k in ("item", "before", "after")} - set(MENU) - {"none"}
    if unknown:
        raise ToolError(f"no rendering for menu items {unknown}")
    srcs = [program(c) if c.get("place", "same_file") == "same_file" else MENU[c["item"]].format(N=SUBJECT) for c in cases]
    # mixed=False: every program through the same path, so that alone and together differ in the neighbours only
    same = [i for i, c in enumerate(cases) if c.get("place", "same_file") == "same_file"]
    other = [i for i, c in enumerate(cases) if c.get("place", "same_file") == "other_crate"]
    results = [None] * len(cases)
    for i, r in zip(same, observe.generate([srcs[i] for i in same], mixed=False)):
        results[i] = r
    if other:
        # folder output: the item in crate cratex, the neighbours in crates that sort before / after it 
        extra = []
        for i in other:
            c = cases[i]
            fs = []
            if c["before"] != "none":
                fs.append({"src": MENU[c["before"]].format(N=BEFORE), "crate": "aaa_other", "path": "aaa_other/src/lib.rs", "out": "aaa_other"})
            if c["after"] != "none":
                fs.append({"src": MENU[c["after"]].format(N=AFTER), "crate": "zzz_other", "path": "zzz_other/src/lib.rs", "out": "zzz_other"})
            extra.append(fs)
        langs_f = list(common.LANGS)
        for i, r in zip(other, observe.generate([srcs[i] for i in other], langs=langs_f, multi=True, extra_files=extra, mixed=False)):
            results[i] = r
    alone = {}
    for c, per in zip(cases, results):
        if c["before"] == "none" and c["after"] == "none":
            alone[c["item"]] = per
    events, meta = [], []
    for c, per, src in zip(cases, results, srcs):
        if c["before"] == "none" and c["after"] == "none":
            continue
        for lang in common.LANGS:
            r, r0 = per[lang], alone.get(c["item"], {}).get(lang)
            if r0 is None or r["status"] != "ok" or r0["status"] != "ok":
                if r0 is not None and r0["status"] == "ok" and r["status"] == "error":
                    # the item alone is accepted; with an (accepted) neighbour the run is refused: judged only if the neighbour alone is accepted too
                    nb_ok = all(alone.get(n, {}).get(lang, {}).get("status") == "ok" for n in (c["before"], c["after"]) if n != "none")
                    if nb_ok:
                        chk.mismatch(f"{chk.pid}/{lang}/compose/{c['item']}/refused-with-neighbours", f"{lang}: {c['item']} and its neighbours are each accepted alone, together the run is refused: "
                                     f"{str(r.get('errors'))[:160]}", {"compose": c, "lang": lang, "src": src}, "accepted", "refused")
                continue          # refusals / panics / unreadable files are C03 / C07 / C08 / C10's business
            a = facet(family(r0["obs"], SUBJECT), which)
            t = facet(family(r["obs"], SUBJECT), which)
            if not a:
                chk.extra["compose_item_not_found_alone"] = chk.extra.get("compose_item_not_found_alone", 0) + 1
                continue          # nothing was read back for the item (vacuous comparison): not counted as judged
            events.append({"lang": lang, "item": c["item"], "alone": a, "together": t})
            meta.append((lang, c, src))
    if not events:
        raise ToolError("Compose: no program was generated")
    ok, matched, tres = common.trace_validate("Trace_Compose", events, timeout=600)
    chk.add_tlc(f"Trace_Compose[{which}]", tres)
    if matched != len(events):
        raise ToolError(f"Trace_Compose consumed {matched}/{len(events)}")
    for b in tres.bad:
        lang, c, src = meta[b - 1]
        e = events[b - 1]
        where = "+".join(x for x in ("after-a-neighbour" if c["before"] != "none" else "", "before-a-neighbour" if c["after"] != "none" else "") if x)
        if c.get("place", "same_file") == "other_crate":
            where += "-in-another-crate"
        if c.get("naming", "far") != "far":
            where += "/neighbour-name=" + c["naming"]
        if c.get("order", "as_named") != "as_named":
            where += "/source-order-crossed"
        chk.mismatch(f"{chk.pid}/{lang}/compose/{c['item']}/{where}/{which}-depend-on-neighbours",
                     f"{lang}: the {which} generated for {c['item']} differ between the run that generates it alone and the run with neighbours "
                     f"(before: {c['before']}, after: {c['after']}): alone {str(e['alone'])[:200]} / together {str(e['together'])[:200]}",
                     {"compose": c, "lang": lang, "src": src}, e["alone"], e["together"])
    chk.traces += len(events) - len(tres.bad)
    for lang, c, _ in meta:
        chk.judged((lang, "compose", which, c["item"], c["before"], c["after"], c.get("place", "same_file"), c.get("naming", "far"), c.get("order", "as_named")))
    chk.extra["compose_events"] = len(events)


# ---- Compose at the level of members (MC_Members): {n} is the member's name, {p} is `pub ` in a struct and empty in a struct variant
MEMBER_MENU = {
    "m_plain": "{p}{n}: u32",
    "m_opt": "{p}{n}: Option<String>",
    "m_default": "#[serde(default)] {p}{n}: u32",
    "m_renamed": '#[serde(rename = "{n}Wire")] {p}{n}: bool',
    "m_dashed": '#[serde(rename = "{n}-wire")] {p}{n}: bool',
    "m_cont": "{p}{n}: Vec<Option<HashMap<String, u32>>>",
    "m_skip": "#[serde(skip)] {p}{n}: u32",
    "m_override": '#[typeshare(typescript(type = "bigint"), swift(type = "Int"), kotlin(type = "Int"), scala(type = "Short"), go(type = "uint"), python(type = "int"))] {p}{n}: u32',
    "m_unit": "{p}{n}: ()",
    "m_optopt": "{p}{n}: Option<Option<bool>>",
    "m_boxed": "{p}{n}: Box<Vec<String>>",
}
M_SUBJECT, M_BEFORE, M_AFTER = "the_subject", "aaa", "zzz"          # the siblings are one-word names: most rules leave them alone


def member_program(c):
    p = "pub " if c["host"] == "struct" else ""
    ms = []
    if c["before"] != "none":
        ms.append(MEMBER_MENU[c["before"]].format(n=M_BEFORE, p=p))
    ms.append(MEMBER_MENU[c["item"]].format(n=M_SUBJECT, p=p))
    if c["after"] != "none":
        ms.append(MEMBER_MENU[c["after"]].format(n=M_AFTER, p=p))
    ra = f'#[serde(rename_all = "{c["rule"]}")]\n' if c["rule"] != "none" else ""
    if c["host"] == "struct":
        return f"#[typeshare]\n{ra}pub struct Host {{\n" + "".join(f"    {m},\n" for m in ms) + "}\n"
    va = f'    #[serde(rename_all = "{c["rule"]}")]\n' if c["rule"] != "none" else ""
    return f'#[typeshare]\n#[serde(tag = "t", content = "c")]\npub enum Host {{\n    Unit,\n{va}    Sv {{\n' + "".join(f"        {m},\n" for m in ms) + "    },\n}\n"


def member_facet(m, which):
    if m is None:
        return "<no such member>"
    return scrub({"keys": {"key": m.get("key")}, "optional": {"optional": bool(m.get("optional"))}, "types": {"ty": m.get("ty")}}[which])


def run_members(chk, which):
    """which: keys | optional | types. MC_Members x 6 languages through the library; the subject member's facet with siblings is compared
    (Trace_Compose, Compose!Independent) with its facet as the host's only member."""
    res = common.run_tlc("MC_Members", cfg="MC_Members", workers=2, timeout=300)
    chk.add_tlc("MC_Members", res)
    cases = res.replays
    if not cases:
        raise ToolError("MC_Members produced no cases")
    unknown = {c[k] for c in cases for k in ("item", "before", "after")} - set(MEMBER_MENU) - {"none"}
    if unknown:
        raise ToolError(f"no rendering for members {unknown}")
    srcs = [member_program(c) for c in cases]
    results = observe.generate(srcs, mixed=False)

    def subject(lang, obs, c):
        ms = (observe.find_def(obs, "Host") or {}).get("members") if c["host"] == "struct" else observe.struct_variant_members(lang, obs, ["Host"], "Sv", "Sv")
        if ms is None:
            return None
        k = 1 if c["before"] not in ("none", "m_skip") else 0          # position of the subject among the generated members
        return ms[k] if k < len(ms) else None

    alone = {(c["item"], c["host"], c["rule"]): per for c, per in zip(cases, results) if c["before"] == "none" and c["after"] == "none"}
    events, meta = [], []
    for c, per, src in zip(cases, results, srcs):
        if c["before"] == "none" and c["after"] == "none":
            continue
        for lang in common.LANGS:
            r, r0 = per[lang], alone.get((c["item"], c["host"], c["rule"]), {}).get(lang)
            if r0 is None or r["status"] != "ok" or r0["status"] != "ok":
                continue          # refusals / panics / unreadable files: C03 / C07 / C08 / C10
            a = subject(lang, r0["obs"], dict(c, before="none", after="none"))
            if a is None:
                chk.extra["members_subject_not_found_alone"] = chk.extra.get("members_subject_not_found_alone", 0) + 1
                continue
            events.append({"lang": lang, "item": c["item"], "alone": member_facet(a, which), "together": member_facet(subject(lang, r["obs"], c), which)})
            meta.append((lang, c, src))
    if not events:
        raise ToolError("Members: no program was generated")
    ok, matched, tres = common.trace_validate("Trace_Compose", events, timeout=600)
    chk.add_tlc(f"Trace_Compose[members,{which}]", tres)
    if matched != len(events):
        raise ToolError(f"Trace_Compose consumed {matched}/{len(events)}")
    for b in tres.bad:
        lang, c, src = meta[b - 1]
        e = events[b - 1]
        where = "+".join(x for x in ("after-" + c["before"] if c["before"] != "none" else "", "before-" + c["after"] if c["after"] != "none" else "") if x)
        chk.mismatch(f"{chk.pid}/{lang}/members/{c['host']}/{c['item']}/{where}/{which}-depend-on-sibling-members",
                     f"{lang}: the {which} generated for member {c['item']} of a {c['host']} (rename_all {c['rule']}) differ between the host with this member alone and "
                     f"with sibling members (before: {c['before']}, after: {c['after']}): alone {str(e['alone'])[:200]} / together {str(e['together'])[:200]}",
                     {"members": c, "lang": lang, "src": src}, e["alone"], e["together"])
    chk.traces += len(events) - len(tres.bad)
    for lang, c, _ in meta:
        chk.judged((lang, "members", which, c["item"], c["before"], c["after"], c["host"], c["rule"]))
    chk.extra["members_events"] = len(events)


# ---- Compose at the level of variants (MC_Variants): {N} is the variant's name
VARIANT_MENU = {
    "v_unit": "{N}",
    "v_newtype": "{N}(u32)",
    "v_newtype_opt": "{N}(Option<String>)",
    "v_struct": "{N} {{ first_field: u32, second: Option<String> }}",
    "v_struct_ruled": '#[serde(rename_all = "PascalCase")] {N} {{ first_field: u32, other_one: bool }}',
    "v_renamed": '#[serde(rename = "wire_of_{N}")] {N}(bool)',
    "v_skip": "#[serde(skip)] {N}(u32)",
    "v_vec": "{N}(Vec<Option<u32>>)",
    "v_struct_cont": "{N} {{ list_of: Vec<String>, map_of: HashMap<String, u32>, #[serde(default)] with_default: u32 }}",
    "v_struct_renamed_field": '{N} {{ #[serde(rename = "explicit-key")] first_field: u32, plain_one: String }}',
}
V_SUBJECT, V_BEFORE, V_AFTER = "TheSubject", "Aaa", "Zzz"


def variant_program(c):
    vs = []
    if c["before"] != "none":
        vs.append(VARIANT_MENU[c["before"]].format(N=V_BEFORE))
    vs.append(VARIANT_MENU[c["item"]].format(N=V_SUBJECT))
    if c["after"] != "none":
        vs.append(VARIANT_MENU[c["after"]].format(N=V_AFTER))
    extra = (f', rename_all = "{c["rule"]}"' if c["rule"] != "none" else "") + (f', rename_all_fields = "{c["frule"]}"' if c["frule"] != "none" else "")
    return f'#[typeshare]\n#[serde(tag = "t", content = "c"{extra})]\npub enum Host {{\n' + "".join(f"    {v},\n" for v in vs) + "}\n"


def variant_facet(lang, obs, c, which):
    d = observe.find_def(obs, "Host")
    if not d or d.get("kind") not in ("union", "enum"):
        return None
    vs = d.get("variants") or []
    k = 1 if c["before"] not in ("none", "v_skip") else 0          # position of the subject among the generated variants
    if k >= len(vs):
        return "<no such variant>"
    v = vs[k]
    ms = None
    if c["item"].startswith("v_struct"):
        ms = observe.struct_variant_members(lang, obs, ["Host"], V_SUBJECT, v.get("wire"))
        if ms is None:
            ms = "<no members found>"
    mem = lambda f: ms if isinstance(ms, str) else [f(m) for m in (ms or [])]
    if which == "wires":
        return scrub({"wires": v.get("wires") or [v.get("wire")]})
    if which == "keys":
        return scrub({"members": mem(lambda m: m.get("key"))})
    if which == "optional":
        return scrub({"payload": bool(v.get("optional")), "members": mem(lambda m: bool(m.get("optional")))})
    if which == "types":
        return scrub({"payload": v.get("ty"), "members": mem(lambda m: m.get("ty"))})
    raise ValueError(which)


def run_variants(chk, which):
    """which: wires | keys | optional | types. MC_Variants x 6 languages through the library; the subject variant's facet with sibling
    variants is compared (Trace_Compose, Compose!Independent) with its facet as the enum's only variant."""
    res = common.run_tlc("MC_Variants", cfg="MC_Variants", workers=2, timeout=300)
    chk.add_tlc("MC_Variants", res)
    cases = res.replays
    if not cases:
        raise ToolError("MC_Variants produced no cases")
    unknown = {c[k] for c in cases for k in ("item", "before", "after")} - set(VARIANT_MENU) - {"none"}
    if unknown:
        raise ToolError(f"no rendering for variants {unknown}")
    srcs = [variant_program(c) for c in cases]
    results = observe.generate(srcs, mixed=False)
    alone = {(c["item"], c["rule"], c["frule"]): per for c, per in zip(cases, results) if c["before"] == "none" and c["after"] == "none"}
    events, meta = [], []
    for c, per, src in zip(cases, results, srcs):
        if c["before"] == "none" and c["after"] == "none":
            continue
        for lang in common.LANGS:
            r, r0 = per[lang], alone.get((c["item"], c["rule"], c["frule"]), {}).get(lang)
            if r0 is None or r["status"] != "ok" or r0["status"] != "ok":
                continue          # refusals / panics / unreadable files: C03 / C07 / C08 / C10
            a = variant_facet(lang, r0["obs"], dict(c, before="none", after="none"), which)
            if a is None or a == "<no such variant>":
                chk.extra["variants_subject_not_found_alone"] = chk.extra.get("variants_subject_not_found_alone", 0) + 1
                continue
            t = variant_facet(lang, r["obs"], c, which)
            events.append({"lang": lang, "item": c["item"], "alone": a, "together": t if t is not None else "<enum not found>"})
            meta.append((lang, c, src))
    if not events:
        raise ToolError("Variants: no program was generated")
    ok, matched, tres = common.trace_validate("Trace_Compose", events, timeout=600)
    chk.add_tlc(f"Trace_Compose[variants,{which}]", tres)
    if matched != len(events):
        raise ToolError(f"Trace_Compose consumed {matched}/{len(events)}")
    for b in tres.bad:
        lang, c, src = meta[b - 1]
        e = events[b - 1]
        where = "+".join(x for x in ("after-" + c["before"] if c["before"] != "none" else "", "before-" + c["after"] if c["after"] != "none" else "") if x)
        chk.mismatch(f"{chk.pid}/{lang}/variants/{c['item']}/{where}/{which}-depend-on-sibling-variants",
                     f"{lang}: the {which} generated for variant {c['item']} (enum rename_all {c['rule']}, rename_all_fields {c['frule']}) differ between the enum with this variant alone "
                     f"and with sibling variants (before: {c['before']}, after: {c['after']}): alone {str(e['alone'])[:200]} / together {str(e['together'])[:200]}",
                     {"variants": c, "lang": lang, "src": src}, e["alone"], e["together"])
    chk.traces += len(events) - len(tres.bad)
    for lang, c, _ in meta:
        chk.judged((lang, "variants", which, c["item"], c["before"], c["after"], c["rule"], c["frule"]))
    chk.extra["variants_events"] = len(events)


def replay(chk, rec, which):
    if "variants" in rec.get("case", {}):
        run_variants(chk, which)
        chk.mismatches = {k: v for k, v in chk.mismatches.items() if k == rec["signature"]}
        return
    if "members" in rec.get("case", {}):
        run_members(chk, which)
        chk.mismatches = {k: v for k, v in chk.mismatches.items() if k == rec["signature"]}
        return
    run(chk, which)
    chk.mismatches = {k: v for k, v in chk.mismatches.items() if k == rec["signature"]}
