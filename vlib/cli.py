"""Layer B for the real binary: source trees, runs with hooks, event-log normalisation, fs snapshots."""
import hashlib
import json
import os
import shutil
import subprocess
import time

from . import common


def make_tree(root, files):
    for rel, content in files.items():
        p = os.path.join(root, rel)
        os.makedirs(os.path.dirname(p), exist_ok=True)
        with open(p, "wb" if isinstance(content, bytes) else "w") as f:
            f.write(content)


def run_cli(args, env=None, cwd=None, timeout=10):
    """-> dict(exit: ok|error|panic|timeout|signal, code, stdout, stderr, wall)"""
    e = dict(os.environ)
    e["RUST_BACKTRACE"] = "0"
    e.pop("RUST_LOG", None)
    for k in list(e):
        if k.startswith("TYPESHARE_VERIF_"):
            del e[k]
    if env:
        e.update(env)
    t = time.time()
    try:
        r = subprocess.run([common.CLI] + args, capture_output=True, text=True, errors="replace", env=e, cwd=cwd, timeout=timeout)
    except subprocess.TimeoutExpired as ex:
        return {"exit": "timeout", "code": None, "stdout": (ex.stdout or b"").decode("utf8", "replace") if isinstance(ex.stdout, bytes) else (ex.stdout or ""),
                "stderr": (ex.stderr or b"").decode("utf8", "replace") if isinstance(ex.stderr, bytes) else (ex.stderr or ""), "wall": time.time() - t}
    out = {"code": r.returncode, "stdout": r.stdout, "stderr": r.stderr, "wall": time.time() - t}
    if "panicked at" in r.stderr or r.returncode == 101:
        out["exit"] = "panic"
    elif r.returncode == 0:
        out["exit"] = "ok"
    elif r.returncode < 0:
        out["exit"] = "signal"
    else:
        out["exit"] = "error"
    return out


def snapshot(root):
    """path -> (sha256, mtime_ns) for every file below root"""
    snap = {}
    for dp, dn, fn in os.walk(root):
        for f in fn:
            p = os.path.join(dp, f)
            st = os.stat(p)
            snap[os.path.relpath(p, root)] = (hashlib.sha256(open(p, "rb").read()).hexdigest(), st.st_mtime_ns)
    return snap


def read_trace(path, stems, names=None, nworkers=2, cap=100, outcome=None, out_of=None, single=True):
    """Event log of one run -> records for Trace_Pipeline (header first). `stems`: source file stems;
    `names`: first type name -> stem (Recv events identify a result by its first type name)."""
    names = names or {}
    raw = [json.loads(l) for l in open(path)] if os.path.exists(path) else []
    raw.sort(key=lambda e: e["seq"])
    wmap = {}
    events = []
    for e in raw:
        ev = e["ev"]
        if ev in ("Parsed", "SendStart", "SendEnd"):
            if e["file"] not in stems:
                continue          # directory entries are work items without a parse result
            w = wmap.setdefault(e["thread"], f"w{len(wmap) + 1}")
            events.append({"ev": ev, "w": w, "file": e["file"], "detail": e["detail"]})
        elif ev == "Recv":
            events.append({"ev": ev, "w": "", "file": names.get(e["file"], ""), "detail": e["detail"]})
        elif ev == "GateTimeout":
            events.append({"ev": "GateTimeout", "w": "", "file": e["file"], "detail": e["detail"]})
        else:
            events.append({"ev": ev, "w": "", "file": e["file"], "detail": e["detail"]})
    n = max(nworkers, len(wmap))
    # out_of: source file stem -> stem of the output file its items go to (Pipeline!OutOf); single: -o or -d
    header = {"files": sorted(stems), "workers": [f"w{i + 1}" for i in range(n)], "cap": cap,
              "out_of": {s: (out_of or {}).get(s, "out") for s in sorted(stems)}, "single": bool(single)}
    if outcome is not None:
        events.append({"ev": "Exit", "w": "", "file": "", "detail": str(outcome)})
    return header, events


def followed(events, schedule):
    """Did the run pass the scheduled points in the scheduled order (and without the watchdog firing)?"""
    if any(e["ev"] == "GateTimeout" for e in events):
        return False
    keys = [f"{e['ev']}:{e['file']}" for e in events]
    pos = -1
    for s in schedule:
        try:
            pos = keys.index(s, pos + 1)
        except ValueError:
            return False
    return True
