//! C18: exercise typeshare::{U53, I54}. Values travel as decimal strings (they exceed f64/JSON-safe range).
//! job: {"id":..,"v":"<decimal i128>"} -> every applicable constructor/conversion, reported as facts.
use serde_json::{json, Value};
use std::convert::TryFrom;
use typeshare::{usize_from_u53_saturated, I54, U53};

fn f64_roundtrip_u(v: u64) -> bool {
    #[allow(clippy::as_conversions)]
    let f = v as f64;
    #[allow(clippy::as_conversions)]
    let back = f as u64;
    back == v && (f + 1.0 != f || v == 0 || true)
}
fn f64_roundtrip_i(v: i64) -> bool {
    #[allow(clippy::as_conversions)]
    let f = v as f64;
    #[allow(clippy::as_conversions)]
    let back = f as i64;
    back == v
}

/// the serde JSON round trip in every POSITION a value can take in a document: element of an array, of a tuple, optional, value and KEY
/// of an object (serde_json writes integer keys as strings and reads them back through the typed deserialize_u64 / _i64 entry points)
fn rt_positions<T>(x: T) -> bool
where
    T: serde::Serialize + serde::de::DeserializeOwned + PartialEq + Ord + Copy,
{
    fn rt<V: serde::Serialize + serde::de::DeserializeOwned + PartialEq>(v: &V) -> bool {
        serde_json::to_string(v).ok().and_then(|js| serde_json::from_str::<V>(&js).ok()).map(|back| &back == v).unwrap_or(false)
    }
    let mut by_key = std::collections::BTreeMap::new();
    by_key.insert(x, 1u8);
    let mut by_val = std::collections::BTreeMap::new();
    by_val.insert("k".to_string(), x);
    // positions that serde reads from its BUFFERED representation instead of from the JSON text: an internally tagged enum, an untagged
    // enum, a flattened struct, an adjacently tagged enum whose content comes before its tag
    #[derive(serde::Serialize, serde::Deserialize, PartialEq)]
    #[serde(tag = "t")]
    enum Internally<T> {
        V { x: T },
    }
    #[derive(serde::Serialize, serde::Deserialize, PartialEq)]
    #[serde(untagged)]
    enum Untagged<T> {
        V { x: T },
    }
    #[derive(serde::Serialize, serde::Deserialize, PartialEq)]
    struct Inner<T> {
        x: T,
    }
    #[derive(serde::Serialize, serde::Deserialize, PartialEq)]
    struct Flat<T> {
        k: u8,
        #[serde(flatten)]
        inner: Inner<T>,
    }
    #[derive(serde::Serialize, serde::Deserialize, PartialEq)]
    #[serde(tag = "t", content = "c")]
    enum Adjacent<T> {
        V(T),
    }
    let content_first = serde_json::to_string(&x)
        .ok()
        .and_then(|js| serde_json::from_str::<Adjacent<T>>(&format!("{{\"c\":{js},\"t\":\"V\"}}")).ok())
        .map(|back| back == Adjacent::V(x))
        .unwrap_or(false);
    rt(&vec![x, x]) && rt(&(x, 1u8)) && rt(&Some(x)) && rt(&by_key) && rt(&by_val)
        && rt(&Internally::V { x }) && rt(&Untagged::V { x }) && rt(&Flat { k: 1, inner: Inner { x } }) && rt(&Adjacent::V(x)) && content_first
}

pub fn run(job: &Value) -> Value {
    let v: i128 = match job["v"].as_str().and_then(|s| s.parse().ok()) {
        Some(v) => v,
        None => return json!({"id": job["id"], "status": "badjob"}),
    };
    let mut out = serde_json::Map::new();
    out.insert("id".into(), job["id"].clone());
    out.insert("v".into(), json!(v.to_string()));
    // U53 via u64
    if let Ok(u) = u64::try_from(v) {
        let r = U53::try_from(u);
        out.insert("u53_try_from_u64".into(), json!(r.is_ok()));
        if let Ok(x) = r {
            let back: u64 = x.into();
            out.insert("u53_back".into(), json!(back.to_string()));
            out.insert("u53_eq_wide".into(), json!(x == u));
            out.insert("u53_display".into(), json!(x.to_string()));
            let js = serde_json::to_string(&x).unwrap_or_default();
            out.insert("u53_json".into(), json!(js));
            let de: Result<U53, _> = serde_json::from_str(&js);
            out.insert(
                "u53_json_rt".into(),
                json!(de.map(|d| d == x).unwrap_or(false) && rt_positions(x)),
            );
            out.insert("u53_f64_rt".into(), json!(f64_roundtrip_u(back)));
            out.insert(
                "u53_usize_sat".into(),
                json!(usize_from_u53_saturated(x).to_string()),
            );
            out.insert("u53_to_u32".into(), json!(u32::try_from(x).map(|n| n.to_string()).ok()));
            out.insert("u53_to_u16".into(), json!(u16::try_from(x).map(|n| n.to_string()).ok()));
            out.insert("u53_to_u8".into(), json!(u8::try_from(x).map(|n| n.to_string()).ok()));
            out.insert("u53_ge_min".into(), json!(x >= U53::MIN && x <= U53::MAX));
        }
        if let Ok(n) = u32::try_from(u) {
            let x: U53 = n.into();
            out.insert("u53_from_u32".into(), json!(u64::from(x).to_string()));
        }
        if let Ok(n) = u16::try_from(u) {
            let x: U53 = n.into();
            out.insert("u53_from_u16".into(), json!(u64::from(x).to_string()));
        }
        if let Ok(n) = u8::try_from(u) {
            let x: U53 = n.into();
            out.insert("u53_from_u8".into(), json!(u64::from(x).to_string()));
        }
    }
    // U53 via JSON literal (any v incl. negative / beyond u64)
    {
        let lit = v.to_string();
        let de: Result<U53, _> = serde_json::from_str(&lit);
        out.insert("u53_de_int".into(), json!(de.as_ref().map(|d| u64::from(*d).to_string()).ok()));
        let de: Result<U53, _> = serde_json::from_str(&format!("{lit}.0"));
        out.insert("u53_de_float".into(), json!(de.as_ref().map(|d| u64::from(*d).to_string()).ok()));
        let de: Result<I54, _> = serde_json::from_str(&lit);
        out.insert("i54_de_int".into(), json!(de.as_ref().map(|d| i64::from(*d).to_string()).ok()));
        let de: Result<I54, _> = serde_json::from_str(&format!("{lit}.0"));
        out.insert("i54_de_float".into(), json!(de.as_ref().map(|d| i64::from(*d).to_string()).ok()));
    }
    // I54 via i64
    if let Ok(i) = i64::try_from(v) {
        let r = I54::try_from(i);
        out.insert("i54_try_from_i64".into(), json!(r.is_ok()));
        if let Ok(x) = r {
            let back: i64 = x.into();
            out.insert("i54_back".into(), json!(back.to_string()));
            out.insert("i54_eq_wide".into(), json!(x == i));
            out.insert("i54_display".into(), json!(x.to_string()));
            let js = serde_json::to_string(&x).unwrap_or_default();
            out.insert("i54_json".into(), json!(js));
            let de: Result<I54, _> = serde_json::from_str(&js);
            out.insert(
                "i54_json_rt".into(),
                json!(de.map(|d| d == x).unwrap_or(false) && rt_positions(x)),
            );
            out.insert("i54_f64_rt".into(), json!(f64_roundtrip_i(back)));
            out.insert("i54_to_i32".into(), json!(i32::try_from(x).map(|n| n.to_string()).ok()));
            out.insert("i54_to_i16".into(), json!(i16::try_from(x).map(|n| n.to_string()).ok()));
            out.insert("i54_to_i8".into(), json!(i8::try_from(x).map(|n| n.to_string()).ok()));
            out.insert("i54_ge_min".into(), json!(x >= I54::MIN && x <= I54::MAX));
        }
        if let Ok(n) = i32::try_from(i) {
            let x: I54 = n.into();
            out.insert("i54_from_i32".into(), json!(i64::from(x).to_string()));
        }
        if let Ok(n) = i16::try_from(i) {
            let x: I54 = n.into();
            out.insert("i54_from_i16".into(), json!(i64::from(x).to_string()));
        }
        if let Ok(n) = i8::try_from(i) {
            let x: I54 = n.into();
            out.insert("i54_from_i8".into(), json!(i64::from(x).to_string()));
        }
    }
    // ordering against a second value
    if let Some(w) = job["w"].as_str().and_then(|s| s.parse::<i128>().ok()) {
        if let (Ok(a), Ok(b)) = (u64::try_from(v), u64::try_from(w)) {
            if let (Ok(x), Ok(y)) = (U53::try_from(a), U53::try_from(b)) {
                out.insert("u53_cmp".into(), json!(format!("{:?}", x.cmp(&y))));
                out.insert("u53_eq".into(), json!(x == y));
                out.insert("u53_cmp_wide".into(), json!(format!("{:?}", x.partial_cmp(&b))));
            }
        }
        if let (Ok(a), Ok(b)) = (i64::try_from(v), i64::try_from(w)) {
            if let (Ok(x), Ok(y)) = (I54::try_from(a), I54::try_from(b)) {
                out.insert("i54_cmp".into(), json!(format!("{:?}", x.cmp(&y))));
                out.insert("i54_eq".into(), json!(x == y));
                out.insert("i54_cmp_wide".into(), json!(format!("{:?}", x.partial_cmp(&b))));
            }
        }
    }
    // a safe integer against ANY wide integer (the mixed PartialEq / PartialOrd impls): w need not be in the safe range
    if let Some(w) = job["w"].as_str().and_then(|s| s.parse::<i128>().ok()) {
        if let (Ok(a), Ok(b)) = (u64::try_from(v), u64::try_from(w)) {
            if let Ok(x) = U53::try_from(a) {
                out.insert("u53_cmpw".into(), json!(x.partial_cmp(&b).map(|o| format!("{o:?}"))));
                out.insert("u53_eqw".into(), json!(x == b));
                out.insert("u53_ltw".into(), json!(x < b));
                out.insert("u53_gew".into(), json!(x >= b));
            }
        }
        if let (Ok(a), Ok(b)) = (i64::try_from(v), i64::try_from(w)) {
            if let Ok(x) = I54::try_from(a) {
                out.insert("i54_cmpw".into(), json!(x.partial_cmp(&b).map(|o| format!("{o:?}"))));
                out.insert("i54_eqw".into(), json!(x == b));
                out.insert("i54_ltw".into(), json!(x < b));
                out.insert("i54_gew".into(), json!(x >= b));
            }
        }
    }
    out.insert("status".into(), json!("ok"));
    Value::Object(out)
}
