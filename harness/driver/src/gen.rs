use crate::LAST_PANIC;
use serde_json::{json, Map, Value};
use std::collections::{BTreeMap, HashMap};
use typeshare_core::{
    context::{ParseContext, ParseFileContext},
    language::{
        CrateName, CrateTypes, GenericConstraints, Go, Kotlin, Language, Python, Scala, Swift,
        TypeScript,
    },
    parser::ParsedData,
    reconcile::reconcile_aliases,
    rust_types::{Id, RustConstExpr, RustEnum, RustEnumVariant, RustField, RustType},
};

fn strs(v: &Value) -> Vec<String> {
    v.as_array()
        .map(|a| {
            a.iter()
                .filter_map(|x| x.as_str().map(|s| s.to_string()))
                .collect()
        })
        .unwrap_or_default()
}

fn smap(v: &Value) -> HashMap<String, String> {
    v.as_object()
        .map(|o| {
            o.iter()
                .filter_map(|(k, x)| x.as_str().map(|s| (k.clone(), s.to_string())))
                .collect()
        })
        .unwrap_or_default()
}

fn s(v: &Value) -> String {
    v.as_str().unwrap_or("").to_string()
}

pub fn make_lang(lang: &str, cfg: &Value, multi_file: bool) -> Option<Box<dyn Language>> {
    let header = cfg["version_header"].as_bool().unwrap_or(false);
    Some(match lang {
        "typescript" => Box::new(TypeScript {
            type_mappings: smap(&cfg["type_mappings"]),
            no_version_header: !header,
            ..Default::default()
        }),
        "kotlin" => Box::new(Kotlin {
            package: s(&cfg["package"]),
            module_name: s(&cfg["module_name"]),
            prefix: s(&cfg["prefix"]),
            type_mappings: smap(&cfg["type_mappings"]),
            no_version_header: !header,
            // (a field added to a backend struct must not break the harness)
            ..Default::default()
        }),
        "swift" => Box::new(Swift {
            prefix: s(&cfg["prefix"]),
            type_mappings: smap(&cfg["type_mappings"]),
            default_decorators: strs(&cfg["default_decorators"]),
            default_generic_constraints: GenericConstraints::from_config(strs(
                &cfg["default_generic_constraints"],
            )),
            multi_file,
            codablevoid_constraints: strs(&cfg["codablevoid_constraints"]),
            no_version_header: !header,
            ..Default::default()
        }),
        "scala" => Box::new(Scala {
            package: s(&cfg["package"]),
            module_name: s(&cfg["module_name"]),
            type_mappings: smap(&cfg["type_mappings"]),
            no_version_header: !header,
            ..Default::default()
        }),
        "go" => Box::new(Go {
            package: s(&cfg["package"]),
            type_mappings: smap(&cfg["type_mappings"]),
            uppercase_acronyms: strs(&cfg["uppercase_acronyms"]),
            no_pointer_slice: cfg["no_pointer_slice"].as_bool().unwrap_or(false),
            no_version_header: !header,
            ..Default::default()
        }),
        "python" => Box::new(Python {
            type_mappings: smap(&cfg["type_mappings"]),
            no_version_header: !header,
            ..Default::default()
        }),
        _ => return None,
    })
}

struct Outcome {
    status: &'static str,
    errors: Vec<Value>,
    outputs: Map<String, Value>,
    parsed: Value,
}

fn id_json(id: &Id) -> Value {
    json!({"original": id.original, "renamed": id.renamed, "serde_rename": id.serde_rename})
}

fn ty_json(t: &RustType) -> Value {
    match t {
        RustType::Simple { id } => json!({"k": "simple", "id": id}),
        RustType::Generic { id, parameters } => {
            json!({"k": "generic", "id": id, "params": parameters.iter().map(ty_json).collect::<Vec<_>>()})
        }
        RustType::Special(sp) => {
            json!({"k": "special", "id": sp.id(), "params": sp.parameters().map(ty_json).collect::<Vec<_>>()})
        }
    }
}

fn field_json(f: &RustField) -> Value {
    json!({"id": id_json(&f.id), "ty": ty_json(&f.ty), "has_default": f.has_default, "comments": f.comments})
}

/// The parser's result, as data (taken after reconcile, before generation).
fn dump(acc: &BTreeMap<CrateName, ParsedData>) -> Value {
    let mut m = Map::new();
    for (k, pd) in acc {
        let structs: Vec<Value> = pd
            .structs
            .iter()
            .map(|s| json!({"id": id_json(&s.id), "generics": s.generic_types, "comments": s.comments,
                "fields": s.fields.iter().map(field_json).collect::<Vec<_>>()}))
            .collect();
        let enums: Vec<Value> = pd
            .enums
            .iter()
            .map(|e| {
                let (tag, content) = match e {
                    RustEnum::Unit(_) => (Value::Null, Value::Null),
                    RustEnum::Algebraic { tag_key, content_key, .. } => (json!(tag_key), json!(content_key)),
                };
                let sh = e.shared();
                json!({"id": id_json(&sh.id), "generics": sh.generic_types, "tag": tag, "content": content,
                    "is_recursive": sh.is_recursive, "comments": sh.comments,
                    "variants": sh.variants.iter().map(|v| match v {
                        RustEnumVariant::Unit(s) => json!({"kind": "unit", "id": id_json(&s.id), "comments": s.comments}),
                        RustEnumVariant::Tuple { ty, shared } => json!({"kind": "tuple", "id": id_json(&shared.id), "ty": ty_json(ty), "comments": shared.comments}),
                        RustEnumVariant::AnonymousStruct { fields, shared } => json!({"kind": "struct", "id": id_json(&shared.id), "comments": shared.comments,
                            "fields": fields.iter().map(field_json).collect::<Vec<_>>()}),
                    }).collect::<Vec<_>>()})
            })
            .collect();
        let aliases: Vec<Value> = pd
            .aliases
            .iter()
            .map(|a| json!({"id": id_json(&a.id), "generics": a.generic_types, "ty": ty_json(&a.r#type), "comments": a.comments}))
            .collect();
        let consts: Vec<Value> = pd
            .consts
            .iter()
            .map(|c| {
                let RustConstExpr::Int(i) = &c.expr;
                json!({"id": id_json(&c.id), "ty": ty_json(&c.r#type), "value": i.to_string()})
            })
            .collect();
        let mut imports: Vec<Value> = pd
            .import_types
            .iter()
            .map(|i| json!({"crate": i.base_crate.as_str(), "name": i.type_name}))
            .collect();
        imports.sort_by_key(|v| v.to_string());
        m.insert(
            k.as_str().to_string(),
            json!({"structs": structs, "enums": enums, "aliases": aliases, "consts": consts, "imports": imports,
                "errors": pd.errors.iter().map(|e| json!({"file": e.file_name, "msg": e.error.to_string()})).collect::<Vec<_>>()}),
        );
    }
    Value::Object(m)
}

fn pipeline(job: &Value) -> Outcome {
    let lang_name = job["lang"].as_str().unwrap_or("typescript");
    let multi_file = job["multi_file"].as_bool().unwrap_or(false);
    let cfg = &job["cfg"];
    let mut lang = make_lang(lang_name, cfg, multi_file).expect("language");
    let target_os = strs(&job["target_os"]);
    let ignored: Vec<String> = lang
        .ignored_reference_types()
        .into_iter()
        .map(|s| s.to_string())
        .collect();
    let parse_context = ParseContext {
        ignored_types: ignored.iter().map(|s| s.as_str()).collect(),
        multi_file,
        target_os,
        ..Default::default()
    };
    let mut acc: BTreeMap<CrateName, ParsedData> = BTreeMap::new();
    let mut errors = Vec::new();
    let empty = vec![];
    for f in job["files"].as_array().unwrap_or(&empty) {
        let crate_name: CrateName = if multi_file {
            CrateName::from(f["crate"].as_str().unwrap_or("default_crate"))
        } else {
            CrateName::from("")
        };
        let path = f["path"].as_str().unwrap_or("file_path").to_string();
        let pfc = ParseFileContext {
            source_code: s(&f["src"]),
            crate_name: crate_name.clone(),
            file_name: f["out"].as_str().unwrap_or("file_name").to_string(),
            file_path: path.clone().into(),
        };
        match typeshare_core::parser::parse(&parse_context, pfc) {
            Ok(Some(pd)) => {
                *acc.entry(crate_name).or_default() += pd;
            }
            Ok(None) => {}
            Err(e) => {
                // the CLI stops at the first Err from a worker
                errors.push(json!({"file": path, "msg": e.to_string(), "fatal": true}));
                return Outcome {
                    status: "error",
                    errors,
                    outputs: Map::new(),
                    parsed: Value::Null,
                };
            }
        }
    }
    reconcile_aliases(&mut acc);
    let parsed = if job["dump"].as_bool().unwrap_or(false) {
        dump(&acc)
    } else {
        Value::Null
    };
    let all: CrateTypes = if multi_file {
        let mut m: CrateTypes = HashMap::new();
        for (k, v) in acc.iter_mut() {
            m.entry(k.clone())
                .or_default()
                .extend(std::mem::take(&mut v.type_names));
        }
        m
    } else {
        HashMap::new()
    };
    for pd in acc.values() {
        for e in &pd.errors {
            errors.push(json!({"file": e.file_name, "msg": e.error.to_string()}));
        }
    }
    if !errors.is_empty() {
        return Outcome {
            status: "error",
            errors,
            outputs: Map::new(),
            parsed,
        };
    }
    if job["parse_only"].as_bool().unwrap_or(false) {
        return Outcome {
            status: "ok",
            errors,
            outputs: Map::new(),
            parsed,
        };
    }
    let mut outputs = Map::new();
    for (k, pd) in acc {
        let mut buf = Vec::new();
        match lang.generate_types(&mut buf, &all, pd) {
            Ok(()) => {
                outputs.insert(
                    k.as_str().to_string(),
                    Value::String(String::from_utf8_lossy(&buf).into_owned()),
                );
            }
            Err(e) => {
                errors.push(json!({"file": k.as_str(), "msg": format!("generate: {e}")}));
                return Outcome {
                    status: "error",
                    errors,
                    outputs: Map::new(),
                    parsed,
                };
            }
        }
    }
    if let Some(dir) = job["post_generation_dir"].as_str() {
        let _ = lang.post_generation(dir);
    }
    Outcome {
        status: "ok",
        errors,
        outputs,
        parsed,
    }
}

pub fn run(job: &Value) -> Value {
    LAST_PANIC.with(|p| *p.borrow_mut() = None);
    let j = job.clone();
    let r = std::panic::catch_unwind(std::panic::AssertUnwindSafe(move || pipeline(&j)));
    match r {
        Ok(o) => json!({"id": job["id"], "status": o.status, "errors": o.errors, "outputs": o.outputs, "parsed": o.parsed}),
        Err(_) => {
            let msg = LAST_PANIC.with(|p| p.borrow_mut().take()).unwrap_or_default();
            json!({"id": job["id"], "status": "panic", "panic": msg})
        }
    }
}
