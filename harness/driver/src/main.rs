//! verif-driver: runs the real typeshare library code on batches of jobs read as ndjson from stdin
//! and prints one ndjson result per job, in input order.
//!
//! Modes (argv[1]):
//!   gen        parse -> fold -> reconcile -> (all_types) -> check errors -> generate, as the CLI does,
//!              but in-process and under catch_unwind (a panic is data, not a crash)
//!   serdecase  vendored serde_derive case.rs (cross-check of spec/SerdeCase.tla)
//!   topsort    the real toposort_impl / sort_by_indices through the cfg(typeshare_verif) hook
//!   safeint    typeshare::{U53, I54} constructors / conversions / serde round trips
//!
//! Nothing here decides a property: expectations come from TLC, comparison is done by the orchestrator.

mod gen;
mod safeint;
mod topo;
mod vendor {
    pub mod serde_case;
}

use serde_json::{json, Value};
use std::cell::RefCell;
use std::io::{BufRead, Write};

thread_local! {
    pub static LAST_PANIC: RefCell<Option<String>> = const { RefCell::new(None) };
}

fn install_panic_hook() {
    std::panic::set_hook(Box::new(|info| {
        let loc = info
            .location()
            .map(|l| format!("{}:{}", l.file(), l.line()))
            .unwrap_or_default();
        let msg = if let Some(s) = info.payload().downcast_ref::<&str>() {
            (*s).to_string()
        } else if let Some(s) = info.payload().downcast_ref::<String>() {
            s.clone()
        } else {
            "<non-string panic>".to_string()
        };
        LAST_PANIC.with(|p| *p.borrow_mut() = Some(format!("{loc}: {msg}")));
    }));
}

fn serdecase(job: &Value) -> Value {
    use vendor::serde_case::RenameRule;
    let rule = job["rule"].as_str().unwrap_or("");
    let id = job["ident"].as_str().unwrap_or("").to_string();
    let pos = job["pos"].as_str().unwrap_or("field").to_string();
    let r = match RenameRule::from_str(rule) {
        Ok(r) => r,
        Err(_) => return json!({"id": job["id"], "status": "unknown_rule"}),
    };
    let res = std::panic::catch_unwind(move || {
        if pos == "variant" {
            r.apply_to_variant(&id)
        } else {
            r.apply_to_field(&id)
        }
    });
    match res {
        Ok(s) => json!({"id": job["id"], "status": "ok", "out": s}),
        Err(_) => json!({"id": job["id"], "status": "panic"}),
    }
}

fn main() {
    install_panic_hook();
    let mode = std::env::args().nth(1).unwrap_or_else(|| "gen".into());
    let threads: usize = std::env::var("VERIF_DRIVER_THREADS")
        .ok()
        .and_then(|s| s.parse().ok())
        .unwrap_or(8);
    let stdin = std::io::stdin();
    let lines: Vec<String> = stdin
        .lock()
        .lines()
        .map(|l| l.expect("stdin"))
        .filter(|l| !l.trim().is_empty())
        .collect();
    let n = lines.len();
    let chunk = n.div_ceil(threads.max(1)).max(1);
    let mode_ref = &mode;
    let results: Vec<Vec<String>> = std::thread::scope(|s| {
        let handles: Vec<_> = lines
            .chunks(chunk)
            .map(|ch| {
                s.spawn(move || {
                    ch.iter()
                        .map(|line| {
                            let job: Value = match serde_json::from_str(line) {
                                Ok(v) => v,
                                Err(e) => {
                                    return json!({"status":"badjob","msg":e.to_string()})
                                        .to_string()
                                }
                            };
                            let out = match mode_ref.as_str() {
                                "gen" => gen::run(&job),
                                "serdecase" => serdecase(&job),
                                "topsort" => topo::run(&job),
                                "safeint" => safeint::run(&job),
                                _ => json!({"status":"badmode"}),
                            };
                            out.to_string()
                        })
                        .collect::<Vec<_>>()
                })
            })
            .collect();
        handles.into_iter().map(|h| h.join().unwrap()).collect()
    });
    let stdout = std::io::stdout();
    let mut w = std::io::BufWriter::new(stdout.lock());
    for r in results.into_iter().flatten() {
        writeln!(w, "{r}").unwrap();
    }
    w.flush().unwrap();
}
