//! verif-driver: runs the real typeshare library code on batches of jobs read as ndjson from stdin
//! and prints one ndjson result per job, in input order.
//!
//! Modes (argv[1]):
//!   gen        parse -> fold -> reconcile -> (all_types) -> check errors -> generate, as the CLI does,
//!              but in-process and under catch_unwind (a panic is data, not a crash)
//!   serdecase  vendored serde_derive case.rs (cross-check of spec/SerdeCase.tla)
//!   topsort    the real toposort_impl / sort_by_indices through the cfg(typeshare_verif) hook
//!   safeint    typeshare::{U53, I54} constructors / conversions / serde round trips
//!
//! Nothing here decides a property: expectations come from TLC, comparison is done by the orchestrator.

mod gen;
mod safeint;
mod topo;
mod vendor {
    pub mod serde_case;
}

use serde_json::{json, Value};
use std::cell::RefCell;
use std::io::{BufRead, Write};

thread_local! {
    pub static LAST_PANIC: RefCell<Option<String>> = const { RefCell::new(None) };
}

fn install_panic_hook() {
    std::panic::set_hook(Box::new(|info| {
        let loc = info
            .location()
            .map(|l| format!("{}:{}", l.file(), l.line()))
            .unwrap_or_default();
        let msg = if let Some(s) = info.payload().downcast_ref::<&str>() {
            (*s).to_string()
        } else if let Some(s) = info.payload().downcast_ref::<String>() {
            s.clone()
        } else {
            "<non-string panic>".to_string()
        };
        LAST_PANIC.with(|p| *p.borrow_mut() = Some(format!("{loc}: {msg}")));
    }));
}

fn serdecase(job: &Value) -> Value {
    use vendor::serde_case::RenameRule;
    let rule = job["rule"].as_str().unwrap_or("");
    let id = job["ident"].as_str().unwrap_or("").to_string();
    let pos = job["pos"].as_str().unwrap_or("field").to_string();
    let r = match RenameRule::from_str(rule) {
        Ok(r) => r,
        Err(_) => return json!({"id": job["id"], "status": "unknown_rule"}),
    };
    let res = std::panic::catch_unwind(move || {
        if pos == "variant" {
            r.apply_to_variant(&id)
        } else {
            r.apply_to_field(&id)
        }
    });
    match res {
        Ok(s) => json!({"id": job["id"], "status": "ok", "out": s}),
        Err(_) => json!({"id": job["id"], "status": "panic"}),
    }
}

fn main() {
    install_panic_hook();
    let mode = std::env::args().nth(1).unwrap_or_else(|| "gen".into());
    let threads: usize = std::env::var("VERIF_DRIVER_THREADS")
        .ok()
        .and_then(|s| s.parse().ok())
        .unwrap_or(8);
    let stdin = std::io::stdin();
    let lines: Vec<String> = stdin
        .lock()
        .lines()
        .map(|l| l.expect("stdin"))
        .filter(|l| !l.trim().is_empty())
        .collect();
    let n = lines.len();
    let mode_ref = &mode;
    // Jobs are handed out one at a time (shared counter), results are kept per index.
    // Watchdog: a job that runs longer than the limit is a hang of the code under test (data, not a tool error): the
    // driver prints what it has as {"_k": index, "r": result} lines, names the stuck jobs on stderr ("HANG <index>") and
    // leaves with exit code 3; the orchestrator re-runs only the jobs that have neither a result nor a HANG line.
    let limit_ms = std::env::var("VERIF_DRIVER_JOB_TIMEOUT")
        .ok()
        .and_then(|s| s.parse::<f64>().ok())
        .map(|s| (s * 1000.0) as u128)
        .unwrap_or(20_000);
    let nthreads = threads.max(1).min(n.max(1));
    let next = std::sync::atomic::AtomicUsize::new(0);
    let running: std::sync::Arc<Vec<std::sync::Mutex<Option<(usize, std::time::Instant)>>>> =
        std::sync::Arc::new((0..nthreads).map(|_| std::sync::Mutex::new(None)).collect());
    let results: std::sync::Arc<Vec<std::sync::Mutex<Option<String>>>> =
        std::sync::Arc::new((0..n).map(|_| std::sync::Mutex::new(None)).collect());
    {
        let running = running.clone();
        let results = results.clone();
        std::thread::spawn(move || loop {
            std::thread::sleep(std::time::Duration::from_millis(200));
            let stuck: Vec<usize> = running
                .iter()
                .filter_map(|slot| *slot.lock().unwrap())
                .filter(|(_, t0)| t0.elapsed().as_millis() >= limit_ms)
                .map(|(idx, _)| idx)
                .collect();
            if stuck.is_empty() {
                continue;
            }
            // give the other threads a moment: siblings of the same input are probably about to get stuck too
            std::thread::sleep(std::time::Duration::from_millis((limit_ms / 2) as u64));
            let stdout = std::io::stdout();
            let mut w = std::io::BufWriter::new(stdout.lock());
            for (k, r) in results.iter().enumerate() {
                if let Some(r) = r.lock().unwrap().as_ref() {
                    writeln!(w, "{{\"_k\":{k},\"r\":{r}}}").unwrap();
                }
            }
            w.flush().unwrap();
            for slot in running.iter() {
                if let Some((idx, t0)) = *slot.lock().unwrap() {
                    if t0.elapsed().as_millis() * 2 >= limit_ms {
                        eprintln!("HANG {idx}");
                    }
                }
            }
            std::process::exit(3);
        });
    }
    let (running_ref, results_ref, next_ref, lines_ref) = (&running, &results, &next, &lines);
    std::thread::scope(|s| {
        for ti in 0..nthreads {
            s.spawn(move || loop {
                let k = next_ref.fetch_add(1, std::sync::atomic::Ordering::SeqCst);
                if k >= n {
                    break;
                }
                *running_ref[ti].lock().unwrap() = Some((k, std::time::Instant::now()));
                let out = match serde_json::from_str::<Value>(&lines_ref[k]) {
                    Err(e) => json!({"status":"badjob","msg":e.to_string()}),
                    Ok(job) => match mode_ref.as_str() {
                        "gen" => gen::run(&job),
                        "serdecase" => serdecase(&job),
                        // a panic of the code under test is data: the job's result says so (gen::run catches its own)
                        "topsort" | "safeint" => {
                            let run = if mode_ref.as_str() == "topsort" { topo::run } else { safeint::run };
                            match std::panic::catch_unwind(std::panic::AssertUnwindSafe(|| run(&job))) {
                                Ok(v) => v,
                                Err(e) => {
                                    let msg = e.downcast_ref::<String>().cloned().or_else(|| e.downcast_ref::<&str>().map(|s| s.to_string())).unwrap_or_default();
                                    json!({"id": job["id"], "status": "panic", "panic": msg})
                                }
                            }
                        }
                        _ => json!({"status":"badmode"}),
                    },
                };
                *results_ref[k].lock().unwrap() = Some(out.to_string());
                *running_ref[ti].lock().unwrap() = None;
            });
        }
    });
    let stdout = std::io::stdout();
    let mut w = std::io::BufWriter::new(stdout.lock());
    for r in results.iter() {
        writeln!(w, "{}", r.lock().unwrap().as_ref().expect("result")).unwrap();
    }
    w.flush().unwrap();
}
