use crate::LAST_PANIC;
use serde_json::{json, Value};

fn usizes(v: &Value) -> Vec<usize> {
    v.as_array()
        .map(|a| a.iter().filter_map(|x| x.as_u64().map(|n| n as usize)).collect())
        .unwrap_or_default()
}

/// job: {"id":..,"op":"toposort","graph":[[..],..]}  (0-based adjacency: graph[i] = dependencies of i)
///      {"id":..,"op":"sort_by_indices","indices":[..]}  data is 0..n
pub fn run(job: &Value) -> Value {
    LAST_PANIC.with(|p| *p.borrow_mut() = None);
    let op = job["op"].as_str().unwrap_or("").to_string();
    let j = job.clone();
    let r = std::panic::catch_unwind(move || match op.as_str() {
        "toposort" => {
            let graph: Vec<Vec<usize>> = j["graph"]
                .as_array()
                .map(|a| a.iter().map(usizes).collect())
                .unwrap_or_default();
            typeshare_core::verif::toposort_impl(&graph)
        }
        "sort_by_indices" => {
            let idx = usizes(&j["indices"]);
            let mut data: Vec<usize> = (0..idx.len()).collect();
            typeshare_core::verif::sort_by_indices(&mut data, idx);
            data
        }
        _ => vec![],
    });
    match r {
        Ok(v) => json!({"id": job["id"], "status": "ok", "out": v}),
        Err(_) => {
            let msg = LAST_PANIC.with(|p| p.borrow_mut().take()).unwrap_or_default();
            json!({"id": job["id"], "status": "panic", "panic": msg})
        }
    }
}
