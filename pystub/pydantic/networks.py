"""stub of pydantic.networks"""
from . import AnyUrl  # noqa: F401
