"""Minimal stand-in for pydantic v2, enough to import typeshare's generated Python and force its type hints.
Not a validator: it only makes the names exist with the shapes the generated code uses."""
from typing import Any, Generic  # noqa: F401


class _FieldInfo:
    def __init__(self, default=..., **kw):
        self.default = default
        self.kw = kw


def Field(default=..., **kw):  # noqa: N802
    return _FieldInfo(default, **kw)


def ConfigDict(**kw):  # noqa: N802
    return dict(kw)


class BaseModel:
    model_config: Any = {}

    def __init__(self, **data):
        for k, v in data.items():
            setattr(self, k, v)

    def __class_getitem__(cls, item):
        return cls


class BeforeValidator:
    def __init__(self, func):
        self.func = func


class AfterValidator(BeforeValidator):
    pass


class PlainSerializer:
    def __init__(self, func, **kw):
        self.func = func


class AnyUrl(str):
    pass
